//! Seeded workload: draws the swarm configuration of a run and then, step by step, the next
//! explicit `Step` from the model state. The model follows the real code in two places only
//! (whether a failed batch kept its good prefix; how many items a SELECT source holds), so a seed
//! is one exactly repeatable program on a given tree.

use crate::exec::Sim;
use crate::gen::*;
use crate::model::*;
use crate::observe::*;
use crate::ops::*;
use crate::rng::Rng;
use crate::seams::IterB;
use crate::spec::*;
use crate::stmt::{Family, ALL_FAMILIES};

pub struct Workload {
    pub next_handle: HandleId,
    pub tag: i32,
    /// steps already decided (bursts, chains)
    pub queue: std::collections::VecDeque<Step>,
    pub amplified: u32,
    /// widths the INSERT being driven has seen before (former column counts, stored row widths)
    pub stale_widths: Vec<usize>,
}

pub fn draw_cfg(r: &mut Rng, prop: Prop) -> Cfg {
    match prop {
        Prop::C15 => {
            let mut families = Vec::new();
            let k = r.range(1, 6);
            for _ in 0..k {
                let f = if r.pct(30) {
                    Family::Select
                } else {
                    *r.pick(ALL_FAMILIES)
                };
                if !families.contains(&f) {
                    families.push(f);
                }
            }
            Cfg {
                prop,
                families,
                max_handles: r.range(2, 8),
                n_steps: r.range(5, 60),
                value_op_pct: r.range(5, 50) as u32,
                observe_pct: r.range(8, 30) as u32,
                fault_pct: if r.pct(30) { 0 } else { r.range(5, 50) as u32 },
                handle_sub_pct: if r.pct(20) { 0 } else { r.range(10, 80) as u32 },
                nested_pct: if r.pct(50) { 0 } else { r.range(5, 40) as u32 },
                allow_nan: r.pct(20),
                adversarial_insert: false,
                mismatch_pct: 0,
                expr_depth: r.range(0, 3) as u32,
                op_mask: draw_mask(r),
            }
        }
        Prop::C10 => {
            let mut families = vec![Family::Insert, Family::Insert, Family::Insert, Family::Select];
            if r.pct(30) {
                families.push(Family::OnConflict);
            }
            if r.pct(20) {
                families.push(Family::WithClause);
            }
            Cfg {
                prop,
                families,
                max_handles: r.range(1, 5),
                n_steps: r.range(3, 60),
                // no take / clone / clear steps in a C10 run: those are C15's subject (statements are
                // still composed into INSERTs by clone / take / move of live SELECT handles)
                value_op_pct: 0,
                observe_pct: r.range(5, 25) as u32,
                fault_pct: if r.pct(30) { 0 } else { r.range(5, 50) as u32 },
                handle_sub_pct: r.range(0, 70) as u32,
                nested_pct: 0,
                allow_nan: false,
                adversarial_insert: r.coin(),
                mismatch_pct: r.range(15, 40) as u32,
                expr_depth: r.range(0, 2) as u32,
                op_mask: draw_mask(r),
            }
        }
    }
}

fn draw_mask(r: &mut Rng) -> u64 {
    match r.below(4) {
        0 => u64::MAX,
        1 => r.next() | r.next(),          // ~75 % of the kinds
        2 => r.next(),                     // ~50 %
        _ => r.next() & r.next(),          // ~25 %
    }
}

fn kind_bit(op: &Op) -> u64 {
    let mut f = crate::rng::Fnv::default();
    f.str(&op.kind());
    1u64 << (f.0 % 64)
}

/// picks where a sub-statement argument comes from: a live handle (clone / take / move) or an
/// inline log
fn sub_source(
    r: &mut Rng,
    sim: &Sim,
    target: Option<HandleId>,
    used: &mut Vec<(HandleId, SubMode)>,
    fam: Family,
    depth: u32,
    inline_only: bool,
) -> Sub {
    if !inline_only && r.pct(sim.cfg.handle_sub_pct) {
        let cands: Vec<HandleId> = sim
            .model
            .iter()
            .filter(|(h, m)| m.fam == fam && !m.residue && !used.iter().any(|(u, _)| u == *h))
            .map(|(h, _)| *h)
            .collect();
        if !cands.is_empty() {
            let h = *r.pick(&cands);
            let mode = if sim.cfg.prop == Prop::C10 {
                // a C10 run composes live statements by moving them in: no clone / take of the
                // composed statement is involved, so a defect of those (C15's subject) cannot
                // surface as a wrong INSERT
                if Some(h) == target {
                    return Sub::Inline(Box::new(gen_inline_log(r, fam, depth.saturating_sub(1), sim.cfg.allow_nan)));
                }
                SubMode::Move
            } else if Some(h) == target {
                SubMode::Clone
            } else {
                match r.below(10) {
                    0..=4 => SubMode::Clone,
                    5..=7 if fam.has_take() => SubMode::Take,
                    5..=7 => SubMode::Clone,
                    _ => SubMode::Move,
                }
            };
            used.push((h, mode));
            return Sub::Handle { h, mode };
        }
    }
    Sub::Inline(Box::new(gen_inline_log(r, fam, depth.saturating_sub(1), sim.cfg.allow_nan)))
}

impl Workload {
    pub fn new() -> Self {
        Workload {
            next_handle: 0,
            tag: 100_000,
            queue: Default::default(),
            amplified: 0,
            stale_widths: Vec::new(),
        }
    }

    fn fresh_handle(&mut self) -> HandleId {
        let h = self.next_handle;
        self.next_handle += 1;
        h
    }

    fn cell(&mut self, r: &mut Rng, sim: &Sim) -> ExprSpec {
        self.tag += 1;
        let t = self.tag;
        match r.below(20) {
            0..=11 => ExprSpec::Val(ValSpec::Int(Some(t))),
            12 | 13 => ExprSpec::Val(ValSpec::Str(Some(format!("c{}", t)))),
            14 => ExprSpec::Bin(
                Box::new(ExprSpec::Val(ValSpec::Int(Some(t)))),
                16,
                Box::new(ExprSpec::Val(ValSpec::Int(Some(1)))),
            ),
            15 => ExprSpec::Val(ValSpec::Int(None)),
            16 => ExprSpec::SubQuery(
                0,
                Sub::Inline(Box::new(select_of_width(r, 1, self, sim))),
            ),
            17 => ExprSpec::Tuple(vec![
                ExprSpec::Val(ValSpec::Int(Some(t))),
                ExprSpec::Val(ValSpec::Str(Some("x, y".into()))),
            ]),
            _ => {
                let mut src = |r: &mut Rng, f: Family, d: u32, _io: bool| -> Sub {
                    Sub::Inline(Box::new(gen_inline_log(r, f, d.saturating_sub(1), false)))
                };
                let mut g = GenCx {
                    depth: sim.cfg.expr_depth,
                    allow_nan: false,
                    sub_src: &mut src,
                    inline_only: true,
                };
                gen_expr(r, &mut g)
            }
        }
    }

    fn row(&mut self, r: &mut Rng, sim: &Sim, w: usize) -> Vec<ExprSpec> {
        (0..w).map(|_| self.cell(r, sim)).collect()
    }

    fn row_width(&mut self, r: &mut Rng, sim: &Sim, cols: usize) -> usize {
        if !r.pct(sim.cfg.mismatch_pct) {
            return cols;
        }
        // widths that match something the statement has seen before are the interesting wrong
        // ones: a former column declaration, the width of a row already stored
        let stale: Vec<usize> = self.stale_widths.iter().copied().filter(|w| *w != cols).collect();
        let w = match r.below(7) {
            0 => 0,
            1 => cols.saturating_sub(1),
            2 => cols + 1,
            3 | 4 if !stale.is_empty() => *r.pick(&stale),
            _ => r.below(8),
        };
        if w == cols {
            cols + 1
        } else {
            w
        }
    }

    fn row_iterb(&mut self, r: &mut Rng, sim: &Sim, w: usize) -> IterB {
        if r.pct(sim.cfg.fault_pct / 2) {
            return IterB::PanicAfter(r.below(w + 2) as u8);
        }
        match r.below(10) {
            0 => IterB::LieLow,
            1 => IterB::LieHigh,
            _ => IterB::Honest,
        }
    }

    /// the INSERT workload of C10
    fn gen_ins_c10(&mut self, r: &mut Rng, sim: &Sim, h: HandleId, used: &mut Vec<(HandleId, SubMode)>) -> Op {
        let log = &sim.model[&h].log;
        let im = ins_model(log);
        let cols = im.cols.len();
        self.stale_widths.clear();
        for o in &log.ops {
            if let Op::Ins(InsOp::Columns(c, _)) = o {
                self.stale_widths.push(c.len());
            }
        }
        if let InsSrc::Rows(rows) = &im.source {
            for rw in rows {
                self.stale_widths.push(rw.len());
            }
        }
        self.stale_widths.sort_unstable();
        self.stale_widths.dedup();
        let declared = log.ops.iter().any(|o| matches!(o, Op::Ins(InsOp::Columns(..))));
        let has_source = im.source != InsSrc::None;
        let adv = sim.cfg.adversarial_insert;
        // declare columns first in the well-formed profile
        if !declared && !adv && r.pct(85) {
            return Op::Ins(InsOp::Columns(gen_idens(r, 0, 6), gen_iterb(r)));
        }
        match r.below(20) {
            0 | 1 if adv || (!has_source && !declared) => {
                Op::Ins(InsOp::Columns(gen_idens(r, 0, 6), gen_iterb(r)))
            }
            0..=6 => {
                let w = self.row_width(r, sim, cols);
                let b = self.row_iterb(r, sim, w);
                Op::Ins(InsOp::Values(self.row(r, sim, w), b))
            }
            7..=9 => {
                let w = self.row_width(r, sim, cols);
                let b = self.row_iterb(r, sim, w);
                Op::Ins(InsOp::ValuesPanic(self.row(r, sim, w), b))
            }
            10..=12 => {
                // mostly small batches; sometimes one past the sizes at which "bulk" fast paths
                // typically switch on
                let n = if r.pct(8) { r.range(8, 40) } else { r.range(0, 4) };
                let mut rows = Vec::new();
                // sometimes the whole batch has one (wrong) width: a batch prepared for a
                // former declaration of the columns
                let uniform = if r.pct(sim.cfg.mismatch_pct / 3) {
                    let w = self.row_width(r, sim, cols);
                    if w != cols { Some(w) } else { None }
                } else {
                    None
                };
                for _ in 0..n {
                    let w = if let Some(u) = uniform {
                        u
                    } else if r.pct(sim.cfg.mismatch_pct / 2) {
                        self.row_width(r, sim, cols)
                    } else {
                        cols
                    };
                    let b = if r.pct(sim.cfg.fault_pct / 4) {
                        IterB::PanicAfter(r.below(w + 2) as u8)
                    } else {
                        IterB::Honest
                    };
                    rows.push((self.row(r, sim, w), b));
                }
                let ob = if r.pct(sim.cfg.fault_pct / 3) {
                    IterB::PanicAfter(r.below(n + 2) as u8)
                } else {
                    gen_iterb(r)
                };
                Op::Ins(InsOp::ValuesFromPanic(rows, ob))
            }
            13 | 14 if adv || !matches!(im.source, InsSrc::Rows(_)) => {
                // a live SELECT handle (whatever its width) or an inline select of chosen width
                let cands: Vec<HandleId> = sim
                    .model
                    .iter()
                    .filter(|(_, m)| m.fam == Family::Select && !m.residue)
                    .map(|(h, _)| *h)
                    .collect();
                if !cands.is_empty() && r.pct(sim.cfg.handle_sub_pct) {
                    let g = *r.pick(&cands);
                    let mode = SubMode::Move; // see sub_source: no clone / take in a C10 run
                    used.push((g, mode));
                    Op::Ins(InsOp::SelectFrom(Sub::Handle { h: g, mode }))
                } else {
                    let w = self.row_width(r, sim, cols);
                    Op::Ins(InsOp::SelectFrom(Sub::Inline(Box::new(select_of_width(r, w, self, sim)))))
                }
            }
            15 => Op::Ins(InsOp::OrDefaultValues),
            16 => Op::Ins(InsOp::OrDefaultValuesMany(r.below(4) as u32)),
            _ => {
                let mut src = |r: &mut Rng, f: Family, d: u32, io: bool| -> Sub {
                    sub_source(r, sim, Some(h), used, f, d, io)
                };
                let mut g = GenCx {
                    depth: sim.cfg.expr_depth,
                    allow_nan: false,
                    sub_src: &mut src,
                    inline_only: false,
                };
                gen_ins_misc(r, &mut g)
            }
        }
    }

    fn gen_builder_op(&mut self, r: &mut Rng, sim: &Sim, h: HandleId) -> Step {
        let fam = sim.model[&h].fam;
        let mut tries = 0;
        loop {
            tries += 1;
            let mut used: Vec<(HandleId, SubMode)> = Vec::new();
            let op = if fam == Family::Insert && sim.cfg.prop == Prop::C10 {
                self.gen_ins_c10(r, sim, h, &mut used)
            } else {
                let mut src = |r: &mut Rng, f: Family, d: u32, io: bool| -> Sub {
                    sub_source(r, sim, Some(h), &mut used, f, d, io)
                };
                let mut g = GenCx {
                    depth: sim.cfg.expr_depth,
                    allow_nan: sim.cfg.allow_nan,
                    sub_src: &mut src,
                    inline_only: false,
                };
                if fam == Family::Insert {
                    gen_ins_wellformed(r, &mut g, &sim.model[&h].log.ops)
                } else {
                    gen_op(r, fam, &mut g)
                }
            };
            if tries < 6 && sim.cfg.op_mask & kind_bit(&op) == 0 {
                continue;
            }
            // the operation itself is authoritative for what it references (a getter-style
            // argument turns a take/move reference into a read)
            let refs = if used.is_empty() { used } else { op_refs(&op) };
            return Step::Op { h, op, refs };
        }
    }

    fn gen_obs(&mut self, r: &mut Rng, sim: &Sim, h: HandleId) -> Step {
        let live: Vec<HandleId> = sim.model.keys().copied().collect();
        let fam = sim.model[&h].fam;
        let fault = |r: &mut Rng| r.pct(sim.cfg.fault_pct);
        match r.below(20) {
            0..=13 => {
                let sink = *r.pick(&[Sink::Str, Sink::Values, Sink::Sim, Sink::Sim]);
                let entry = match r.below(6) {
                    0 => Entry::ToString,
                    1 => Entry::Build,
                    2 => Entry::BuildAny,
                    _ => Entry::Collect {
                        sink,
                        any: r.coin(),
                        into: r.coin(),
                        preused: r.pct(25),
                    },
                };
                let writer_fail_in = match entry {
                    Entry::Collect { sink: Sink::Sim, .. } if fault(r) => Some(r.below(30) as u64),
                    _ => None,
                };
                let iden_panic_in = if writer_fail_in.is_none() && r.pct(sim.cfg.fault_pct / 2) {
                    Some(r.below(10) as u64)
                } else {
                    None
                };
                let nested = if live.len() > 1 && r.pct(sim.cfg.nested_pct) {
                    let g = *r.pick(&live);
                    if g != h {
                        Some((g, r.below(12) as u64))
                    } else {
                        None
                    }
                } else {
                    None
                };
                Step::Observe {
                    h,
                    obs: ObsSpec {
                        backend: *r.pick(&BACKENDS),
                        entry,
                        writer_fail_in,
                    },
                    iden_panic_in,
                    nested,
                }
            }
            14..=16 if fam.has_eq() => {
                let same: Vec<HandleId> = sim
                    .model
                    .iter()
                    .filter(|(_, m)| m.fam == fam)
                    .map(|(g, _)| *g)
                    .collect();
                Step::ObserveEq {
                    a: h,
                    b: *r.pick(&same),
                    iden_panic_in: if fault(r) { Some(r.below(6) as u64) } else { None },
                }
            }
            14..=18 => Step::ObserveDebug {
                h,
                iden_panic_in: if fault(r) { Some(r.below(6) as u64) } else { None },
            },
            _ => Step::Check,
        }
    }

    /// burst: the same kind of builder call 8-40 times in a row on one handle (sizes at which
    /// fast paths, small-vector spills and "bulk" code typically switch on)
    fn plan_burst(&mut self, r: &mut Rng, sim: &Sim, h: HandleId) {
        let mut first = self.gen_builder_op(r, sim, h);
        for _ in 0..20 {
            if matches!(&first, Step::Op { refs, .. } if refs.is_empty()) {
                break;
            }
            first = self.gen_builder_op(r, sim, h);
        }
        if !matches!(&first, Step::Op { refs, .. } if refs.is_empty()) {
            return;
        }
        let kind = first.kind();
        let k = r.range(8, 40);
        self.queue.push_back(first);
        let mut tries = 0;
        while self.queue.len() < k && tries < k * 30 {
            tries += 1;
            let st = self.gen_builder_op(r, sim, h);
            // bursts never compose live handles (40 self-compositions would be 2^40 nodes)
            let plain = matches!(&st, Step::Op { refs, .. } if refs.is_empty());
            if st.kind() == kind && plain {
                self.queue.push_back(st);
            }
        }
        self.amplified += 1;
    }

    /// chain: a statement nested 8-40 levels deep, built by composing a fresh SELECT around the
    /// previous one again and again (union / from_subquery / join_subquery), sometimes with a
    /// second arm per level; then value operations and observations on the outermost
    fn plan_chain(&mut self, r: &mut Rng, sim: &Sim) {
        let k = r.range(8, 40);
        let mut prev = self.fresh_handle();
        self.queue.push_back(Step::New { h: prev, fam: Family::Select, ctor: Ctor::Default });
        self.queue.push_back(Step::Op {
            h: prev,
            op: Op::Sel(SelOp::Column(gen_colref(r))),
            refs: vec![],
        });
        let how = r.below(4);
        for _ in 0..k {
            let x = self.fresh_handle();
            self.queue.push_back(Step::New { h: x, fam: Family::Select, ctor: Ctor::Default });
            let mode = if r.pct(70) { SubMode::Move } else { SubMode::Take };
            let sub = Sub::Handle { h: prev, mode };
            let op = match if how == 3 { r.below(3) } else { how } {
                0 => Op::Sel(SelOp::Union(r.below(4) as u8, sub)),
                1 => Op::Sel(SelOp::FromSubquery(sub, gen_iden(r))),
                _ => Op::Sel(SelOp::JoinSubquery {
                    jt: r.below(6) as u8,
                    sub,
                    alias: gen_iden(r),
                    cond: CondSpec { any: false, negate: false, items: vec![] },
                }),
            };
            self.queue.push_back(Step::Op { h: x, op, refs: vec![(prev, mode)] });
            if r.pct(35) {
                // a sibling arm at this level
                let arm = gen_inline_log(r, Family::Select, 0, false);
                self.queue.push_back(Step::Op {
                    h: x,
                    op: Op::Sel(SelOp::Union(r.below(4) as u8, Sub::Inline(Box::new(arm)))),
                    refs: vec![],
                });
            }
            if mode == SubMode::Take {
                self.queue.push_back(Step::Drop { h: prev });
            }
            prev = x;
        }
        let c = self.fresh_handle();
        self.queue.push_back(Step::Clone { src: prev, new: c });
        let c2 = self.fresh_handle();
        self.queue.push_back(Step::Clone { src: c, new: c2 });
        let t = self.fresh_handle();
        self.queue.push_back(Step::Take { src: prev, new: t });
        self.queue.push_back(Step::CloneFrom { src: t, dst: c });
        self.queue.push_back(Step::Check);
        self.amplified += 1;
        let _ = sim;
    }

    pub fn next_step(&mut self, r: &mut Rng, sim: &Sim) -> Step {
        if let Some(st) = self.queue.pop_front() {
            return st;
        }
        let live: Vec<HandleId> = sim.model.keys().copied().collect();
        if self.amplified < 2 && !live.is_empty() && r.pct(2) {
            if sim.cfg.prop == Prop::C15 && sim.cfg.families.contains(&Family::Select) && r.coin() {
                self.plan_chain(r, sim);
            } else {
                let h = *r.pick(&live);
                self.plan_burst(r, sim, h);
            }
            if let Some(st) = self.queue.pop_front() {
                return st;
            }
        }
        if live.is_empty() || (live.len() < sim.cfg.max_handles && r.pct(18)) {
            let fam = *r.pick(&sim.cfg.families);
            let h = self.fresh_handle();
            let mut used = Vec::new();
            let mut src = |r: &mut Rng, f: Family, d: u32, io: bool| -> Sub {
                sub_source(r, sim, None, &mut used, f, d, io)
            };
            let mut g = GenCx {
                depth: sim.cfg.expr_depth,
                allow_nan: sim.cfg.allow_nan,
                sub_src: &mut src,
                inline_only: false,
            };
            let ctor = gen_ctor(r, fam, &mut g);
            return Step::New { h, fam, ctor };
        }
        let h = *r.pick(&live);
        let m = &sim.model[&h];
        if m.residue {
            return match r.below(4) {
                0 | 1 => Step::Drop { h },
                2 => self.gen_builder_op(r, sim, h),
                _ => self.gen_obs(r, sim, h),
            };
        }
        let roll = r.below(100) as u32;
        if roll < sim.cfg.value_op_pct {
            let room = live.len() < sim.cfg.max_handles + 2;
            let clears: Vec<ClearKind> = [
                ClearKind::ClearSelects,
                ClearKind::FromClear,
                ClearKind::ResetLimit,
                ClearKind::ResetOffset,
                ClearKind::ClearOrderBy,
            ]
            .into_iter()
            .filter(|c| c.applies_to(m.fam))
            .collect();
            let same: Vec<HandleId> = sim
                .model
                .iter()
                .filter(|(g, x)| **g != h && x.fam == m.fam)
                .map(|(g, _)| *g)
                .collect();
            if !same.is_empty() && r.pct(15) {
                return Step::CloneFrom {
                    src: h,
                    dst: *r.pick(&same),
                };
            }
            return match r.below(10) {
                0..=2 if room && m.fam.has_take() => Step::Take {
                    src: h,
                    new: self.fresh_handle(),
                },
                0..=5 if room => Step::Clone {
                    src: h,
                    new: self.fresh_handle(),
                },
                0..=8 if !clears.is_empty() => {
                    // mostly clear a clause the handle actually has (clearing an empty clause
                    // exercises little), sometimes any clause
                    let populated: Vec<ClearKind> = clears
                        .iter()
                        .copied()
                        .filter(|c| m.log.ops.iter().any(|o| o.clause() == c.clause()))
                        .collect();
                    let what = if !populated.is_empty() && r.pct(70) {
                        *r.pick(&populated)
                    } else {
                        *r.pick(&clears)
                    };
                    Step::Clear { h, what }
                }
                0..=8 => self.gen_builder_op(r, sim, h),
                _ => Step::Drop { h },
            };
        }
        if roll < sim.cfg.value_op_pct + sim.cfg.observe_pct {
            return self.gen_obs(r, sim, h);
        }
        self.gen_builder_op(r, sim, h)
    }
}

impl Default for Workload {
    fn default() -> Self {
        Self::new()
    }
}

/// an inline SELECT log with exactly `w` entries in its select list
pub fn select_of_width(r: &mut Rng, w: usize, wl: &mut Workload, _sim: &Sim) -> crate::stmt::Log {
    let mut ops = Vec::new();
    let mut left = w;
    while left > 0 {
        wl.tag += 1;
        match r.below(4) {
            0 if left >= 2 => {
                let k = r.range(2, left.min(3));
                ops.push(Op::Sel(SelOp::Columns(
                    (0..k).map(|_| gen_colref(r)).collect(),
                    IterB::Honest,
                )));
                left -= k;
            }
            1 => {
                ops.push(Op::Sel(SelOp::Expr(ExprSpec::Val(ValSpec::Int(Some(wl.tag))))));
                left -= 1;
            }
            2 => {
                ops.push(Op::Sel(SelOp::ExprAs(
                    ExprSpec::Val(ValSpec::Int(Some(wl.tag))),
                    gen_iden(r),
                )));
                left -= 1;
            }
            _ => {
                ops.push(Op::Sel(SelOp::Column(gen_colref(r))));
                left -= 1;
            }
        }
    }
    if r.coin() {
        ops.push(Op::Sel(SelOp::From(gen_plain_tableref(r))));
    }
    if r.pct(30) {
        ops.push(Op::Sel(SelOp::Limit(r.below(10) as u64)));
    }
    crate::stmt::Log {
        fam: Family::Select,
        ctor: Ctor::Default,
        ops,
    }
}
