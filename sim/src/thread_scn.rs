//! Multi-thread scenarios (C20 behavioural clause). One scenario vocabulary, three runtimes:
//! `SeqRt` (everything inline on one thread: the schedule-free baseline), `StdRt` (real
//! `std::thread`s — what runs under Miri's seeded scheduler) and `ShuttleRt` (shuttle threads
//! under a seeded Random / PCT scheduler; in thsim.rs).
//!
//! Oracle: whatever is rendered on any thread equals the same observation of the lineage replay
//! computed without threads.

use crate::gen::{gen_inline_log, gen_op};
use crate::observe::*;
use crate::ops::*;
use crate::rng::Rng;
use crate::seams::{self, IterB, YieldMode};
use crate::spec::*;
use crate::stmt::*;
use sea_query::SelectStatement;
use serde::{Deserialize, Serialize};
use std::cell::RefCell;
use std::future::Future;
use std::pin::Pin;
use std::sync::Arc;
use std::task::{Context, Poll, Wake, Waker};

pub type Joiner<T> = Box<dyn FnOnce() -> T>;
pub type Tx<T> = Box<dyn Fn(T) + Send>;
pub type Rx<T> = Box<dyn FnMut() -> Option<T> + Send>;

/// what a scenario needs from a threading runtime
pub trait Rt: 'static {
    fn yield_mode() -> YieldMode;
    fn spawn<T: Send + 'static>(f: Box<dyn FnOnce() -> T + Send>) -> Joiner<T>;
    fn chan<T: Send + 'static>() -> (Tx<T>, Rx<T>);
    /// a mutex-protected queue for the mini executor of S4
    fn queue<T: Send + 'static>() -> Arc<dyn TaskQueue<T>>;
    /// called by an executor worker that found nothing to poll
    fn idle() {
        std::thread::yield_now();
    }
}

pub trait TaskQueue<T>: Send + Sync {
    fn push(&self, t: T);
    fn pop(&self) -> Option<T>;
}

pub struct SeqRt;
pub struct StdRt;

struct StdQueue<T>(std::sync::Mutex<std::collections::VecDeque<T>>);
impl<T: Send> TaskQueue<T> for StdQueue<T> {
    fn push(&self, t: T) {
        self.0.lock().unwrap().push_back(t);
    }
    fn pop(&self) -> Option<T> {
        self.0.lock().unwrap().pop_front()
    }
}

impl Rt for SeqRt {
    fn yield_mode() -> YieldMode {
        YieldMode::None
    }
    fn spawn<T: Send + 'static>(f: Box<dyn FnOnce() -> T + Send>) -> Joiner<T> {
        let v = f();
        Box::new(move || v)
    }
    fn chan<T: Send + 'static>() -> (Tx<T>, Rx<T>) {
        let (tx, rx) = std::sync::mpsc::channel::<T>();
        (
            Box::new(move |t| {
                let _ = tx.send(t);
            }),
            Box::new(move || rx.try_recv().ok()),
        )
    }
    fn queue<T: Send + 'static>() -> Arc<dyn TaskQueue<T>> {
        Arc::new(StdQueue(std::sync::Mutex::new(Default::default())))
    }
}

impl Rt for StdRt {
    fn yield_mode() -> YieldMode {
        YieldMode::Std
    }
    fn spawn<T: Send + 'static>(f: Box<dyn FnOnce() -> T + Send>) -> Joiner<T> {
        let h = std::thread::spawn(f);
        Box::new(move || h.join().expect("HARNESS: actor thread panicked"))
    }
    fn chan<T: Send + 'static>() -> (Tx<T>, Rx<T>) {
        let (tx, rx) = std::sync::mpsc::channel::<T>();
        (
            Box::new(move |t| {
                let _ = tx.send(t);
            }),
            Box::new(move || rx.recv().ok()),
        )
    }
    fn queue<T: Send + 'static>() -> Arc<dyn TaskQueue<T>> {
        Arc::new(StdQueue(std::sync::Mutex::new(Default::default())))
    }
}

// ------------------------------------------------------------------------------------------

#[derive(Clone, Debug, PartialEq, Serialize, Deserialize)]
pub struct Branch {
    pub ops: Vec<Op>,
    /// compose what was received into a fresh SELECT (0 none, 1 union, 2 from_subquery) — Select only
    pub compose: u8,
    /// unwind in the middle, dropping the received clone while others keep rendering
    pub panics: bool,
    /// take() the received value first and keep working on the taken one
    pub take_first: bool,
    pub obs: ObsSpec,
}

#[derive(Clone, Debug, PartialEq, Serialize, Deserialize)]
pub struct TaskSpec {
    pub log: Log,
    pub awaits: u8,
    pub more_ops: Vec<Op>,
    pub obs: ObsSpec,
}

#[derive(Clone, Debug, PartialEq, Serialize, Deserialize)]
pub enum Scenario {
    /// build on actor 0 -> send -> actor 1 mutates -> send -> ... -> last actor renders
    S1 { base: Log, stages: Vec<Vec<Op>>, obs: Vec<ObsSpec> },
    /// one Arc<Stmt> rendered concurrently by several actors while the builder clones it,
    /// mutates the clone and drops its own share
    S2 { base: Log, readers: Vec<Vec<ObsSpec>>, clone_ops: Vec<Op>, clone_obs: ObsSpec },
    /// clone fan-out: every actor gets a clone, mutates / composes / drops / may unwind
    S3 { base: Log, branches: Vec<Branch>, owner_obs: ObsSpec },
    /// await migration: tasks hold a statement across awaits while any worker polls them
    S4 { tasks: Vec<TaskSpec>, workers: u8 },
}

impl Scenario {
    pub fn kind(&self) -> &'static str {
        match self {
            Scenario::S1 { .. } => "S1-pipeline",
            Scenario::S2 { .. } => "S2-shared-render",
            Scenario::S3 { .. } => "S3-clone-fanout",
            Scenario::S4 { .. } => "S4-await-migration",
        }
    }
}

#[derive(Clone, Debug, PartialEq, Serialize, Deserialize)]
pub struct Finding {
    pub check: String,
    pub detail: String,
}

fn gen_obs(r: &mut Rng) -> ObsSpec {
    let entry = match r.below(6) {
        0 => Entry::ToString,
        1 => Entry::Build,
        2 => Entry::BuildAny,
        _ => Entry::Collect {
            sink: *r.pick(&[Sink::Str, Sink::Values, Sink::Sim, Sink::Sim]),
            any: r.coin(),
            into: r.coin(),
            preused: r.pct(20),
        },
    };
    ObsSpec {
        backend: *r.pick(&BACKENDS),
        entry,
        writer_fail_in: None,
    }
}

fn gen_ops(r: &mut Rng, fam: Family, lo: usize, hi: usize, so_far: &[Op]) -> Vec<Op> {
    let mut src = |r: &mut Rng, f: Family, d: u32, _io: bool| -> Sub {
        Sub::Inline(Box::new(gen_inline_log(r, f, d.saturating_sub(1), true)))
    };
    let mut g = GenCx {
        depth: 2,
        allow_nan: true,
        sub_src: &mut src,
        inline_only: true,
    };
    let mut all: Vec<Op> = so_far.to_vec();
    let mut out = Vec::new();
    for _ in 0..r.range(lo, hi) {
        let op = if fam == Family::Insert {
            crate::gen::gen_ins_wellformed(r, &mut g, &all)
        } else {
            gen_op(r, fam, &mut g)
        };
        for o in op.flatten() {
            all.push(o.clone());
            out.push(o);
        }
    }
    out
}

pub fn gen_scenario(r: &mut Rng, small: bool) -> Scenario {
    gen_scenario_kind(r, small, None)
}

/// `force`: Some(0) = only S1 pipelines (no two threads ever run at the same time: build on one
/// thread, mutate on the next, render on the last — deterministic also on real threads)
pub fn gen_scenario_kind(r: &mut Rng, small: bool, force: Option<usize>) -> Scenario {
    let fam = if small {
        match r.below(20) {
            0..=11 => Family::Select,
            12..=16 => Family::Insert,
            _ => *r.pick(ALL_FAMILIES),
        }
    } else if r.pct(35) {
        Family::Select
    } else if r.pct(10) {
        Family::Insert
    } else {
        *r.pick(ALL_FAMILIES)
    };
    let depth = if small { 1 } else { 2 };
    let mut base = gen_inline_log(r, fam, depth, true);
    if small && fam == Family::Select {
        // make sure the shared statement holds identifiers of sea-query's own `Alias` type next
        // to the simulator's, so that concurrent renders on different backends meet in them
        let a = |n: &str| IdenSpec {
            n: n.to_string(),
            slot: None,
            alias: true,
        };
        base.ops.push(Op::Sel(SelOp::Column(ColRefSpec::TblCol(a("glyph"), a("aspect")))));
        base.ops.push(Op::Sel(SelOp::From(TableRefSpec::Table(a("glyph")))));
        base.ops.push(Op::Cond(CondOp::AndWhere(ExprSpec::Bin(
            Box::new(ExprSpec::Col(ColRefSpec::Col(a("we\"ird`name")))),
            10,
            Box::new(ExprSpec::Val(ValSpec::Int(Some(7)))),
        ))));
        // ... and values of the optional value-type features (their rendering code is only
        // reached through them)
        for v in [
            ValSpec::ChronoDateTime(Some(1_577_934_245)),
            ValSpec::Json(Some("{\"k\":[1,2]}".into())),
            ValSpec::Uuid(Some((0x1234_5678_9abc_def0, 0x0fed_cba9_8765_4321))),
            ValSpec::Decimal(Some((31415, 4))),
            ValSpec::Array(Some(vec![1, 2])),
        ] {
            if r.pct(90) {
                base.ops.push(Op::Cond(CondOp::AndWhere(ExprSpec::Bin(
                    Box::new(ExprSpec::Col(ColRefSpec::Col(a("v")))),
                    10,
                    Box::new(ExprSpec::Val(v)),
                ))));
            }
        }
    }
    if fam == Family::Insert && (small || r.coin()) {
        // an INSERT template that already holds rows: its clones are extended concurrently
        let a = |n: &str| IdenSpec {
            n: n.to_string(),
            slot: None,
            alias: n.len() % 2 == 0,
        };
        let cell = |k: i32| ExprSpec::Val(ValSpec::Int(Some(k)));
        base.ops.clear();
        base.ops.push(Op::Ins(InsOp::IntoTable(TableRefSpec::Table(a("glyph")))));
        base.ops.push(Op::Ins(InsOp::Columns(vec![a("id"), a("name")], IterB::Honest)));
        base.ops.push(Op::Ins(InsOp::Values(vec![cell(0), ExprSpec::Val(ValSpec::Str(Some("header".into())))], IterB::Honest)));
    }
    let hi = if small { 2 } else { 5 };
    // the small (Miri) mix favours scenarios in which several threads render shared structure
    let kind = if let Some(k) = force {
        let _ = r.below(20);
        k
    } else if small {
        match r.below(20) {
            0 | 1 => 0,
            2..=10 => 1,
            11..=17 => 2,
            _ => 3,
        }
    } else {
        r.below(4)
    };
    match kind {
        0 => {
            let n = r.range(1, 3);
            let mut so_far = base.ops.clone();
            let mut stages = Vec::new();
            for _ in 0..n {
                let ops = gen_ops(r, fam, 0, hi, &so_far);
                so_far.extend(ops.clone());
                stages.push(ops);
            }
            Scenario::S1 {
                base,
                stages,
                obs: (0..r.range(1, 3)).map(|_| gen_obs(r)).collect(),
            }
        }
        1 => Scenario::S2 {
            readers: (0..r.range(if small { 2 } else { 1 }, 3))
                .enumerate()
                .map(|(ri, _)| {
                    (0..r.range(1, 3))
                        .enumerate()
                        .map(|(k, _)| {
                            let mut o = gen_obs(r);
                            if small {
                                // concurrent readers on different backends, each starting with
                                // the inline (to_string) path so that first uses coincide
                                o.backend = BACKENDS[ri % 3];
                                if k == 0 {
                                    o.entry = Entry::ToString;
                                }
                            }
                            o
                        })
                        .collect()
                })
                .collect(),
            clone_ops: gen_ops(r, fam, 0, hi, &base.ops),
            clone_obs: gen_obs(r),
            base,
        },
        2 => {
            let n = r.range(if small { 2 } else { 1 }, 3);
            let branches = (0..n)
                .enumerate()
                .map(|(bi, _)| Branch {
                    ops: {
                        let mut ops = gen_ops(r, fam, 0, hi, &base.ops);
                        if fam == Family::Insert {
                            let mut all = base.ops.clone();
                            all.extend(ops.iter().cloned());
                            let cols = crate::gen::ins_cols(&all);
                            let select_source = all.iter().any(|o| matches!(o, Op::Ins(InsOp::SelectFrom(..))));
                            for k in 0..(if select_source { 0 } else { r.range(1, 3) }) {
                                ops.push(Op::Ins(InsOp::Values(
                                    (0..cols).map(|c| ExprSpec::Val(ValSpec::Int(Some((bi * 100 + k * 10 + c) as i32)))).collect(),
                                    IterB::Honest,
                                )));
                            }
                        }
                        ops
                    },
                    compose: if fam == Family::Select { r.below(3) as u8 } else { 0 },
                    panics: r.pct(15),
                    take_first: fam.has_take() && r.pct(30),
                    obs: {
                        let mut o = gen_obs(r);
                        if small && r.pct(60) {
                            o.entry = Entry::ToString;
                        }
                        o
                    },
                })
                .collect();
            Scenario::S3 {
                base,
                branches,
                owner_obs: gen_obs(r),
            }
        }
        _ => {
            let n = r.range(1, if small { 2 } else { 4 });
            let tasks = (0..n)
                .map(|_| {
                    let f = if r.pct(35) { Family::Select } else { *r.pick(ALL_FAMILIES) };
                    let log = gen_inline_log(r, f, depth, true);
                    let more_ops = gen_ops(r, f, 0, hi, &log.ops);
                    TaskSpec {
                        log,
                        awaits: r.range(1, if small { 2 } else { 5 }) as u8,
                        more_ops,
                        obs: gen_obs(r),
                    }
                })
                .collect();
            Scenario::S4 {
                tasks,
                workers: r.range(2, 3) as u8,
            }
        }
    }
}

// ------------------------------------------------------------------------------------------
// actor-side helpers

fn live_build(log: &Log) -> Stmt {
    let pool = RefCell::new(IdenPool::new());
    let mut cx = Ctx {
        live: true,
        pool: Some(&pool),
        arena: None,
        target: None,
        self_clone: None,
    };
    build_log(log, &mut cx)
}

fn live_apply(s: &mut Stmt, ops: &[Op]) {
    let pool = RefCell::new(IdenPool::new());
    let mut cx = Ctx {
        live: true,
        pool: Some(&pool),
        arena: None,
        target: None,
        self_clone: None,
    };
    for o in ops {
        if let Err(e) = apply_op(s, o, &mut cx) {
            // an INSERT row / select source the tree rejects although the template meant it to
            // fit: the call did not take effect — here and in the lineage replay alike
            if matches!(o, Op::Ins(_)) {
                continue;
            }
            panic!("HARNESS: thread op failed: {:?}", e);
        }
    }
}

fn obs_str(s: &Stmt, o: &ObsSpec) -> String {
    res_str(&observe_one(s, o, true).out)
}

fn expect_str(log: &Log, extra: &[Op], o: &ObsSpec) -> String {
    let mut l = log.clone();
    l.ops.extend(extra.iter().cloned());
    let st = replay(&l);
    res_str(&observe_one(&st, o, false).out)
}

type Out = Vec<(String, String)>; // (label, observation)

/// start gate: the `n` parties begin their concurrent phase together (no-op without threads)
fn gate<R: Rt>(g: &std::sync::atomic::AtomicUsize, n: usize) {
    use std::sync::atomic::Ordering;
    if R::yield_mode() == YieldMode::None {
        return;
    }
    g.fetch_add(1, Ordering::SeqCst);
    let mut spins = 0u32;
    while g.load(Ordering::SeqCst) < n {
        R::idle();
        spins += 1;
        if spins > 1_000_000 {
            panic!("HARNESS: start gate starved");
        }
    }
}

fn actor<R: Rt, T: Send + 'static>(f: impl FnOnce() -> T + Send + 'static) -> Joiner<Result<T, String>> {
    R::spawn(Box::new(move || {
        seams::reset_seam(R::yield_mode());
        guarded(f)
    }))
}

fn collect(outs: Vec<Result<Out, String>>, findings: &mut Vec<Finding>) -> Out {
    let mut all = Vec::new();
    for o in outs {
        match o {
            Ok(v) => all.extend(v),
            Err(m) => findings.push(Finding {
                check: "harness".into(),
                detail: format!("actor panicked: {}", m),
            }),
        }
    }
    all
}

fn compare(got: &Out, want: &[(String, String)], findings: &mut Vec<Finding>) {
    for (label, exp) in want {
        match got.iter().find(|(l, _)| l == label) {
            None => findings.push(Finding {
                check: "harness".into(),
                detail: format!("no observation labelled {}", label),
            }),
            Some((_, g)) if g != exp => findings.push(Finding {
                check: "c20.cross_thread_render".into(),
                detail: format!("{}: expected {:?} got {:?}", label, exp, g),
            }),
            _ => {}
        }
    }
}

// ------------------------------------------------------------------------------------------
// S4 support: a tiny executor

pub struct SimYield(pub bool);
impl Future for SimYield {
    type Output = ();
    fn poll(mut self: Pin<&mut Self>, cx: &mut Context<'_>) -> Poll<()> {
        if self.0 {
            Poll::Ready(())
        } else {
            self.0 = true;
            cx.waker().wake_by_ref();
            Poll::Pending
        }
    }
}

struct NoopWake;
impl Wake for NoopWake {
    fn wake(self: Arc<Self>) {}
}

type BoxFut = Pin<Box<dyn Future<Output = (String, String)> + Send>>;

async fn task_body(idx: usize, t: TaskSpec) -> (String, String) {
    // built before the first await, held across every await, mutated in between, rendered last
    let mut s = live_build(&t.log);
    let half = t.more_ops.len() / 2;
    for i in 0..t.awaits {
        SimYield(false).await;
        if i == 0 {
            live_apply(&mut s, &t.more_ops[..half]);
        }
    }
    live_apply(&mut s, &t.more_ops[half..]);
    let r = &s;
    SimYield(false).await;
    (format!("task{}", idx), obs_str(r, &t.obs))
}

// ------------------------------------------------------------------------------------------

/// run one scenario on runtime `R`; returns the findings (empty = held)
pub fn run_scenario<R: Rt>(sc: &Scenario) -> Vec<Finding> {
    run_scenario_mode::<R>(sc, false)
}

/// `independent = true`: wherever the scenario would hand out a *clone* (or an `Arc` share) of a
/// statement, hand out an independently built copy of the same lineage instead. A failure that
/// disappears then needs structure shared between a clone and its source — the subject of the
/// value-operation property, not of thread-safety.
pub fn run_scenario_mode<R: Rt>(sc: &Scenario, independent: bool) -> Vec<Finding> {
    let mut findings = Vec::new();
    match sc {
        Scenario::S1 { base, stages, obs } => {
            let n = stages.len();
            // chan[i] carries the statement into stage i
            let mut txs: Vec<Option<Tx<Stmt>>> = Vec::new();
            let mut rxs: Vec<Option<Rx<Stmt>>> = Vec::new();
            for _ in 0..n {
                let (tx, rx) = R::chan::<Stmt>();
                txs.push(Some(tx));
                rxs.push(Some(rx));
            }
            let mut joins: Vec<Joiner<Result<Out, String>>> = Vec::new();
            let base0 = base.clone();
            let first_tx = txs[0].take().unwrap();
            joins.push(actor::<R, Out>(move || {
                let s = live_build(&base0);
                first_tx(s);
                vec![]
            }));
            for (i, ops) in stages.iter().enumerate() {
                let mut my_rx = rxs[i].take().unwrap();
                let my_tx = if i + 1 < n { txs[i + 1].take() } else { None };
                let ops = ops.clone();
                let obs = obs.clone();
                joins.push(actor::<R, Out>(move || {
                    let mut s = my_rx().expect("HARNESS: pipeline recv");
                    live_apply(&mut s, &ops);
                    match my_tx {
                        Some(tx) => {
                            tx(s);
                            vec![]
                        }
                        None => obs
                            .iter()
                            .enumerate()
                            .map(|(k, o)| (format!("final{}", k), obs_str(&s, o)))
                            .collect(),
                    }
                }));
            }
            let outs: Vec<_> = joins.into_iter().map(|j| j()).collect();
            let got = collect(outs, &mut findings);
            let all_ops: Vec<Op> = stages.iter().flatten().cloned().collect();
            let want: Vec<(String, String)> = obs
                .iter()
                .enumerate()
                .map(|(k, o)| (format!("final{}", k), expect_str(base, &all_ops, o)))
                .collect();
            compare(&got, &want, &mut findings);
        }
        Scenario::S2 { base, readers, clone_ops, clone_obs } => {
            let mut txs = Vec::new();
            let mut rxs = Vec::new();
            for _ in readers {
                let (tx, rx) = R::chan::<Arc<Stmt>>();
                txs.push(tx);
                rxs.push(rx);
            }
            let mut joins: Vec<Joiner<Result<Out, String>>> = Vec::new();
            let base0 = base.clone();
            let ops = clone_ops.clone();
            let cobs = clone_obs.clone();
            // the builder is spawned first so that the sequential runtime finds filled channels
            joins.push(actor::<R, Out>(move || {
                let a = Arc::new(live_build(&base0));
                for tx in &txs {
                    if independent {
                        tx(Arc::new(live_build(&base0)));
                    } else {
                        tx(a.clone());
                    }
                }
                let mut c = if independent { live_build(&base0) } else { (*a).clone() };
                drop(a);
                live_apply(&mut c, &ops);
                vec![("clone".to_string(), obs_str(&c, &cobs))]
            }));
            let g = Arc::new(std::sync::atomic::AtomicUsize::new(0));
            let n_readers = readers.len();
            for (ri, (obs, mut rx)) in readers.iter().cloned().zip(rxs.into_iter()).enumerate() {
                let g = g.clone();
                joins.push(actor::<R, Out>(move || {
                    let a = rx().expect("HARNESS: reader recv");
                    gate::<R>(&g, n_readers);
                    let out = obs
                        .iter()
                        .enumerate()
                        .map(|(k, o)| (format!("r{}o{}", ri, k), obs_str(&a, o)))
                        .collect();
                    drop(a); // possibly the last share: dropped on this thread
                    out
                }));
            }
            let outs: Vec<_> = joins.into_iter().map(|j| j()).collect();
            let got = collect(outs, &mut findings);
            let mut want = Vec::new();
            for (ri, obs) in readers.iter().enumerate() {
                for (k, o) in obs.iter().enumerate() {
                    want.push((format!("r{}o{}", ri, k), expect_str(base, &[], o)));
                }
            }
            want.push(("clone".to_string(), expect_str(base, clone_ops, clone_obs)));
            compare(&got, &want, &mut findings);
        }
        Scenario::S3 { base, branches, owner_obs } => {
            // the owner actor runs first so that the sequential runtime sees filled channels
            let mut txs = Vec::new();
            let mut rxs = Vec::new();
            for _ in branches {
                let (tx, rx) = R::chan::<Stmt>();
                txs.push(tx);
                rxs.push(rx);
            }
            let mut joins: Vec<Joiner<Result<Out, String>>> = Vec::new();
            let base0 = base.clone();
            let oobs = owner_obs.clone();
            joins.push(actor::<R, Out>(move || {
                let s = live_build(&base0);
                for tx in &txs {
                    if independent {
                        tx(live_build(&base0));
                    } else {
                        tx(s.clone());
                    }
                }
                let r = obs_str(&s, &oobs);
                drop(s);
                vec![("owner".to_string(), r)]
            }));
            let g = Arc::new(std::sync::atomic::AtomicUsize::new(0));
            let n_branches = branches.len();
            for (bi, (b, mut rx)) in branches.iter().cloned().zip(rxs.into_iter()).enumerate() {
                let g = g.clone();
                joins.push(actor::<R, Out>(move || {
                    let mut s = rx().expect("HARNESS: branch recv");
                    gate::<R>(&g, n_branches);
                    if b.panics {
                        let r: Result<(), String> = guarded(move || {
                            live_apply(&mut s, &b.ops);
                            let _keep = s.clone();
                            panic!("SIMFAULT actor panics holding clones");
                        });
                        assert!(r.is_err());
                        return vec![];
                    }
                    let mut out: Out = Vec::new();
                    if b.take_first {
                        let t = s.take_value().expect("HARNESS: take");
                        if s.family().take_leaves_fresh() {
                            out.push((format!("b{}left", bi), obs_str(&s, &b.obs)));
                        }
                        s = t;
                    }
                    live_apply(&mut s, &b.ops);
                    let s = match (b.compose, s) {
                        (1, Stmt::Select(q)) => {
                            let mut outer = SelectStatement::new();
                            outer.union(sea_query::UnionType::All, q);
                            Stmt::Select(outer)
                        }
                        (2, Stmt::Select(q)) => {
                            let mut outer = SelectStatement::new();
                            outer.from_subquery(
                                q,
                                crate::seams::SimIden {
                                    name: "sub".into(),
                                    live: true,
                                },
                            );
                            Stmt::Select(outer)
                        }
                        (_, s) => s,
                    };
                    out.push((format!("b{}", bi), obs_str(&s, &b.obs)));
                    out
                }));
            }
            let outs: Vec<_> = joins.into_iter().map(|j| j()).collect();
            let got = collect(outs, &mut findings);
            let mut want = vec![("owner".to_string(), expect_str(base, &[], owner_obs))];
            for (bi, b) in branches.iter().enumerate() {
                if b.panics {
                    continue;
                }
                if b.take_first && base.fam.take_leaves_fresh() {
                    want.push((format!("b{}left", bi), expect_str(&Log::new(base.fam), &[], &b.obs)));
                }
                let mut l = base.clone();
                l.ops.extend(b.ops.iter().cloned());
                let inner = replay(&l);
                let st = match (b.compose, inner) {
                    (1, Stmt::Select(q)) => {
                        let mut outer = SelectStatement::new();
                        outer.union(sea_query::UnionType::All, q);
                        Stmt::Select(outer)
                    }
                    (2, Stmt::Select(q)) => {
                        let mut outer = SelectStatement::new();
                        outer.from_subquery(
                            q,
                            crate::seams::SimIden {
                                name: "sub".into(),
                                live: false,
                            },
                        );
                        Stmt::Select(outer)
                    }
                    (_, s) => s,
                };
                want.push((format!("b{}", bi), res_str(&observe_one(&st, &b.obs, false).out)));
            }
            compare(&got, &want, &mut findings);
        }
        Scenario::S4 { tasks, workers } => {
            let q = R::queue::<BoxFut>();
            for (i, t) in tasks.iter().cloned().enumerate() {
                q.push(Box::pin(task_body(i, t)));
            }
            let remaining = Arc::new(std::sync::atomic::AtomicUsize::new(tasks.len()));
            let mut joins: Vec<Joiner<Result<Out, String>>> = Vec::new();
            for _ in 0..*workers {
                let q = q.clone();
                let remaining = remaining.clone();
                joins.push(actor::<R, Out>(move || {
                    let waker: Waker = Arc::new(NoopWake).into();
                    let mut cx = Context::from_waker(&waker);
                    let mut out: Out = Vec::new();
                    let mut idle = 0u32;
                    while remaining.load(std::sync::atomic::Ordering::SeqCst) > 0 {
                        match q.pop() {
                            Some(mut fut) => {
                                idle = 0;
                                match fut.as_mut().poll(&mut cx) {
                                    Poll::Ready(r) => {
                                        remaining.fetch_sub(1, std::sync::atomic::Ordering::SeqCst);
                                        out.push(r);
                                    }
                                    // waker = re-enqueue: any worker may poll it next
                                    Poll::Pending => q.push(fut),
                                }
                            }
                            None => {
                                idle += 1;
                                if idle > 10_000 {
                                    panic!("HARNESS: executor starved");
                                }
                                R::idle();
                            }
                        }
                    }
                    out
                }));
            }
            let outs: Vec<_> = joins.into_iter().map(|j| j()).collect();
            let got = collect(outs, &mut findings);
            let want: Vec<(String, String)> = tasks
                .iter()
                .enumerate()
                .map(|(i, t)| (format!("task{}", i), expect_str(&t.log, &t.more_ops, &t.obs)))
                .collect();
            compare(&got, &want, &mut findings);
        }
    }
    findings
}

// ------------------------------------------------------------------------------------------
// minimisation: smaller scenarios of the same shape (the caller re-explores schedules for each)

fn drop_each<T: Clone>(v: &[T]) -> Vec<Vec<T>> {
    (0..v.len())
        .map(|i| {
            let mut w = v.to_vec();
            w.remove(i);
            w
        })
        .collect()
}

/// candidate scenarios one step smaller than `sc`
pub fn shrink_candidates(sc: &Scenario) -> Vec<Scenario> {
    let mut out = Vec::new();
    let base_variants = |base: &Log| -> Vec<Log> {
        drop_each(&base.ops)
            .into_iter()
            .map(|ops| Log {
                fam: base.fam,
                ctor: base.ctor.clone(),
                ops,
            })
            .collect()
    };
    match sc {
        Scenario::S1 { base, stages, obs } => {
            for b in base_variants(base) {
                out.push(Scenario::S1 { base: b, stages: stages.clone(), obs: obs.clone() });
            }
            if stages.len() > 1 {
                for st in drop_each(stages) {
                    out.push(Scenario::S1 { base: base.clone(), stages: st, obs: obs.clone() });
                }
            }
            for (i, st) in stages.iter().enumerate() {
                for ops in drop_each(st) {
                    let mut s2 = stages.clone();
                    s2[i] = ops;
                    out.push(Scenario::S1 { base: base.clone(), stages: s2, obs: obs.clone() });
                }
            }
            if obs.len() > 1 {
                for o in drop_each(obs) {
                    out.push(Scenario::S1 { base: base.clone(), stages: stages.clone(), obs: o });
                }
            }
        }
        Scenario::S2 { base, readers, clone_ops, clone_obs } => {
            for b in base_variants(base) {
                out.push(Scenario::S2 { base: b, readers: readers.clone(), clone_ops: clone_ops.clone(), clone_obs: clone_obs.clone() });
            }
            if readers.len() > 1 {
                for r in drop_each(readers) {
                    out.push(Scenario::S2 { base: base.clone(), readers: r, clone_ops: clone_ops.clone(), clone_obs: clone_obs.clone() });
                }
            }
            for (i, r) in readers.iter().enumerate() {
                if r.len() > 1 {
                    for o in drop_each(r) {
                        let mut r2 = readers.clone();
                        r2[i] = o;
                        out.push(Scenario::S2 { base: base.clone(), readers: r2, clone_ops: clone_ops.clone(), clone_obs: clone_obs.clone() });
                    }
                }
            }
            for ops in drop_each(clone_ops) {
                out.push(Scenario::S2 { base: base.clone(), readers: readers.clone(), clone_ops: ops, clone_obs: clone_obs.clone() });
            }
        }
        Scenario::S3 { base, branches, owner_obs } => {
            for b in base_variants(base) {
                out.push(Scenario::S3 { base: b, branches: branches.clone(), owner_obs: owner_obs.clone() });
            }
            if branches.len() > 1 {
                for b in drop_each(branches) {
                    out.push(Scenario::S3 { base: base.clone(), branches: b, owner_obs: owner_obs.clone() });
                }
            }
            for (i, br) in branches.iter().enumerate() {
                for ops in drop_each(&br.ops) {
                    let mut b2 = branches.clone();
                    b2[i].ops = ops;
                    out.push(Scenario::S3 { base: base.clone(), branches: b2, owner_obs: owner_obs.clone() });
                }
                if br.compose != 0 || br.take_first || br.panics {
                    let mut b2 = branches.clone();
                    b2[i].compose = 0;
                    b2[i].take_first = false;
                    b2[i].panics = false;
                    out.push(Scenario::S3 { base: base.clone(), branches: b2, owner_obs: owner_obs.clone() });
                }
            }
        }
        Scenario::S4 { tasks, workers } => {
            if tasks.len() > 1 {
                for t in drop_each(tasks) {
                    out.push(Scenario::S4 { tasks: t, workers: *workers });
                }
            }
            for (i, t) in tasks.iter().enumerate() {
                for ops in drop_each(&t.log.ops) {
                    let mut t2 = tasks.clone();
                    t2[i].log.ops = ops;
                    out.push(Scenario::S4 { tasks: t2, workers: *workers });
                }
                for ops in drop_each(&t.more_ops) {
                    let mut t2 = tasks.clone();
                    t2[i].more_ops = ops;
                    out.push(Scenario::S4 { tasks: t2, workers: *workers });
                }
                if t.awaits > 1 {
                    let mut t2 = tasks.clone();
                    t2[i].awaits -= 1;
                    out.push(Scenario::S4 { tasks: t2, workers: *workers });
                }
            }
        }
    }
    out
}
