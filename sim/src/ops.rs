//! The operation vocabulary: one plain-data variant per public builder call, and `apply_op`,
//! which performs that call on a real sea-query value.

use crate::seams::IterB;
use crate::spec::*;
use crate::stmt::{Ctx, Family, Stmt};
use sea_query::extension::mysql::{IndexHintScope, MySqlSelectStatementExt};
use sea_query::extension::postgres::{PostgresSelectStatementExt, SampleMethod};
use sea_query::*;
use serde::{Deserialize, Serialize};

#[derive(Clone, Debug, PartialEq, Serialize, Deserialize)]
pub enum Ctor {
    Default,
    ColumnDef(IdenSpec, Option<ColTypeSpec>),
    OnConflictColumn(IdenSpec),
    OnConflictColumns(Vec<IdenSpec>, IterB),
    WindowPartitionBy(ColRefSpec),
    WindowPartitionByCustom(String),
    CteFromSelect(Sub),
    /// `table.get_columns()[i].clone()` (falls back to ColumnDef::new("none") when empty)
    ColumnDefFromTable(Sub, u8),
    /// `table.get_indexes()[i].clone()`
    IndexCreateFromTable(Sub, u8),
    /// `table.get_foreign_key_create_stmts()[i].clone()`
    FkCreateFromTable(Sub, u8),
    /// `index.get_index_spec().clone()`
    TableIndexFromIndex(Sub),
    /// `fk.get_foreign_key().clone()`
    TableFkFromFk(Sub),
}

#[derive(Clone, Debug, PartialEq, Serialize, Deserialize)]
pub enum OrdOp {
    OrderBy(ColRefSpec, OrderSpec),
    OrderByExpr(ExprSpec, OrderSpec),
    OrderByCustoms(Vec<(String, OrderSpec)>, IterB),
    OrderByColumns(Vec<(ColRefSpec, OrderSpec)>, IterB),
    OrderByWithNulls(ColRefSpec, OrderSpec, bool),
    OrderByExprWithNulls(ExprSpec, OrderSpec, bool),
    OrderByCustomsWithNulls(Vec<(String, OrderSpec, bool)>, IterB),
    OrderByColumnsWithNulls(Vec<(ColRefSpec, OrderSpec, bool)>, IterB),
}

#[derive(Clone, Debug, PartialEq, Serialize, Deserialize)]
pub enum CondOp {
    AndWhere(ExprSpec),
    AndWhereOption(Option<ExprSpec>),
    CondWhere(CondSpec),
}

#[derive(Clone, Debug, PartialEq, Serialize, Deserialize)]
pub enum MutEach {
    SetAlias(IdenSpec),
    ClearAlias,
    ClearWindow,
    WrapMax,
}

#[derive(Clone, Debug, PartialEq, Serialize, Deserialize)]
pub enum SelOp {
    Distinct,
    DistinctOn(Vec<ColRefSpec>, IterB),
    Column(ColRefSpec),
    Columns(Vec<ColRefSpec>, IterB),
    Expr(ExprSpec),
    Exprs(Vec<ExprSpec>, IterB),
    ExprAs(ExprSpec, IdenSpec),
    ExprWindow(ExprSpec, Sub),
    ExprWindowAs(ExprSpec, Sub, IdenSpec),
    ExprWindowName(ExprSpec, IdenSpec),
    ExprWindowNameAs(ExprSpec, IdenSpec, IdenSpec),
    ExprsMutForEach(MutEach),
    From(TableRefSpec),
    FromAs(TableRefSpec, IdenSpec),
    FromValues(Vec<Vec<ValSpec>>, IdenSpec, IterB),
    FromSubquery(Sub, IdenSpec),
    FromFunction(FuncSpec, IdenSpec),
    /// method: 0 join(jt) 1 cross 2 left 3 right 4 inner 5 full_outer
    Join { method: u8, jt: u8, tbl: TableRefSpec, cond: CondSpec },
    JoinAs { jt: u8, tbl: TableRefSpec, alias: IdenSpec, cond: CondSpec },
    JoinSubquery { jt: u8, sub: Sub, alias: IdenSpec, cond: CondSpec },
    JoinLateral { jt: u8, sub: Sub, alias: IdenSpec, cond: CondSpec },
    GroupByColumns(Vec<ColRefSpec>, IterB),
    GroupByCol(ColRefSpec),
    AddGroupBy(Vec<ExprSpec>, IterB),
    CondHaving(CondSpec),
    AndHaving(ExprSpec),
    Limit(u64),
    Offset(u64),
    Lock(u8),
    LockWithTables(u8, Vec<TableRefSpec>, IterB),
    LockWithBehavior(u8, bool),
    LockWithTablesBehavior(u8, Vec<TableRefSpec>, IterB, bool),
    LockShared,
    LockExclusive,
    Union(u8, Sub),
    Unions(Vec<(u8, Sub)>, IterB),
    WithCte(Sub),
    Window(IdenSpec, Sub),
    TableSample(bool, u32, Option<u32>),
    IndexHint { kind: u8, name: IdenSpec, scope: u8 },
    // closures (flattened in the model)
    Apply(Vec<Op>),
    ApplyIf(bool, Vec<Op>),
    Conditions(bool, Vec<Op>, Vec<Op>),
}

#[derive(Clone, Debug, PartialEq, Serialize, Deserialize)]
pub enum WinOp {
    PartitionBy(ColRefSpec),
    PartitionByCustoms(Vec<String>, IterB),
    PartitionByColumns(Vec<ColRefSpec>, IterB),
    AddPartitionBy(ExprSpec),
    FrameStart(bool, FrameSpec),
    FrameBetween(bool, FrameSpec, FrameSpec),
    Frame(bool, FrameSpec, Option<FrameSpec>),
}

#[derive(Clone, Debug, PartialEq, Serialize, Deserialize)]
pub enum UpdOp {
    Table(TableRefSpec),
    From(TableRefSpec),
    Values(Vec<(IdenSpec, ExprSpec)>, IterB),
    Value(IdenSpec, ExprSpec),
    Limit(u64),
    Returning(ReturningSpec),
    ReturningCol(ColRefSpec),
    ReturningAll,
    WithCte(Sub),
}

#[derive(Clone, Debug, PartialEq, Serialize, Deserialize)]
pub enum DelOp {
    FromTable(TableRefSpec),
    Limit(u64),
    Returning(ReturningSpec),
    ReturningCol(ColRefSpec),
    ReturningAll,
    WithCte(Sub),
}

#[derive(Clone, Debug, PartialEq, Serialize, Deserialize)]
pub enum InsOp {
    Replace,
    IntoTable(TableRefSpec),
    Columns(Vec<IdenSpec>, IterB),
    Values(Vec<ExprSpec>, IterB),
    ValuesPanic(Vec<ExprSpec>, IterB),
    ValuesFromPanic(Vec<(Vec<ExprSpec>, IterB)>, IterB),
    SelectFrom(Sub),
    OnConflict(Sub),
    Returning(ReturningSpec),
    ReturningCol(ColRefSpec),
    ReturningAll,
    WithCte(Sub),
    OrDefaultValues,
    OrDefaultValuesMany(u32),
}

#[derive(Clone, Debug, PartialEq, Serialize, Deserialize)]
pub enum OcOp {
    Expr(ExprSpec),
    Exprs(Vec<ExprSpec>, IterB),
    DoNothing,
    DoNothingOn(Vec<IdenSpec>, IterB),
    UpdateColumn(IdenSpec),
    UpdateColumns(Vec<IdenSpec>, IterB),
    Values(Vec<(IdenSpec, ExprSpec)>, IterB),
    Value(IdenSpec, ExprSpec),
    TargetAndWhere(ExprSpec),
    TargetAndWhereOption(Option<ExprSpec>),
    TargetCondWhere(CondSpec),
    ActionAndWhere(ExprSpec),
    ActionAndWhereOption(Option<ExprSpec>),
    ActionCondWhere(CondSpec),
}

#[derive(Clone, Debug, PartialEq, Serialize, Deserialize)]
pub enum WithOp {
    Recursive(bool),
    Search(bool, ExprSpec, IdenSpec),
    Cycle(ExprSpec, IdenSpec, IdenSpec),
    Cte(Sub),
}

#[derive(Clone, Debug, PartialEq, Serialize, Deserialize)]
pub enum CteOp {
    TableName(IdenSpec),
    Column(IdenSpec),
    Columns(Vec<IdenSpec>, IterB),
    Materialized(bool),
    Query(Sub),
    TrySetColsFromSelect(Sub),
}

#[derive(Clone, Debug, PartialEq, Serialize, Deserialize)]
pub enum WqOp {
    WithClause(Sub),
    Recursive(bool),
    Search(bool, ExprSpec, IdenSpec),
    Cycle(ExprSpec, IdenSpec, IdenSpec),
    Cte(Sub),
    Query(Sub),
}

#[derive(Clone, Debug, PartialEq, Serialize, Deserialize)]
pub enum TcOp {
    IfNotExists,
    Table(TableRefSpec),
    Comment(String),
    /// (column, pass `&mut ColumnDef` instead of the value)
    Col(Sub, bool),
    Check(ExprSpec),
    Index(Sub),
    PrimaryKey(Sub),
    ForeignKey(Sub),
    Engine(String),
    Collate(String),
    CharacterSet(String),
    Extra(String),
    Temporary,
}

#[derive(Clone, Debug, PartialEq, Serialize, Deserialize)]
pub enum TaOp {
    Table(TableRefSpec),
    AddColumn(Sub, bool),
    AddColumnIfNotExists(Sub, bool),
    ModifyColumn(Sub, bool),
    RenameColumn(IdenSpec, IdenSpec),
    DropColumn(IdenSpec),
    AddForeignKey(Sub),
    DropForeignKey(IdenSpec),
}

#[derive(Clone, Debug, PartialEq, Serialize, Deserialize)]
pub enum TdOp {
    Table(TableRefSpec),
    IfExists,
    Restrict,
    Cascade,
}

#[derive(Clone, Debug, PartialEq, Serialize, Deserialize)]
pub enum CdOp {
    NotNull,
    Null,
    Default(ExprSpec),
    AutoIncrement,
    UniqueKey,
    PrimaryKey,
    Type(ColTypeSpec),
    Check(ExprSpec),
    Generated(ExprSpec, bool),
    Extra(String),
    Using(ExprSpec),
    Comment(String),
}

#[derive(Clone, Debug, PartialEq, Serialize, Deserialize)]
pub enum IcOp {
    IfNotExists,
    Name(String),
    Table(TableRefSpec),
    Col(IdenSpec, Option<u32>, Option<bool>),
    Primary,
    Unique,
    NullsNotDistinct,
    FullText,
    IndexType(u8, Option<IdenSpec>),
    Include(IdenSpec),
}

#[derive(Clone, Debug, PartialEq, Serialize, Deserialize)]
pub enum IdOp {
    Name(String),
    Table(TableRefSpec),
    IfExists,
}

#[derive(Clone, Debug, PartialEq, Serialize, Deserialize)]
pub enum TiOp {
    Name(String),
    Col(IdenSpec, Option<u32>, Option<bool>),
}

#[derive(Clone, Debug, PartialEq, Serialize, Deserialize)]
pub enum FkOp {
    Name(String),
    From(TableRefSpec, Vec<IdenSpec>),
    To(TableRefSpec, Vec<IdenSpec>),
    FromTbl(TableRefSpec),
    ToTbl(TableRefSpec),
    FromCol(IdenSpec),
    ToCol(IdenSpec),
    OnDelete(u8),
    OnUpdate(u8),
}

#[derive(Clone, Debug, PartialEq, Serialize, Deserialize)]
pub enum FdOp {
    Name(String),
    Table(TableRefSpec),
}

#[derive(Clone, Debug, PartialEq, Serialize, Deserialize)]
pub enum PgExtOp {
    TycAsEnum(Vec<IdenSpec>),
    TycValues(Vec<IdenSpec>, IterB),
    TydName(Vec<IdenSpec>),
    TydNames(Vec<Vec<IdenSpec>>, IterB),
    TydIfExists,
    TydCascade,
    TydRestrict,
    TyaName(Vec<IdenSpec>),
    TyaAddValue(IdenSpec),
    TyaBefore(IdenSpec),
    TyaAfter(IdenSpec),
    TyaIfNotExists,
    TyaRenameTo(IdenSpec),
    TyaRenameValue(IdenSpec, IdenSpec),
    ExcName(String),
    ExcSchema(String),
    ExcVersion(String),
    ExcCascade,
    ExcIfNotExists,
    ExdName(String),
    ExdIfExists,
    ExdCascade,
    ExdRestrict,
}

#[derive(Clone, Debug, PartialEq, Serialize, Deserialize)]
pub enum Op {
    Pg(PgExtOp),
    Ord(OrdOp),
    Cond(CondOp),
    Sel(SelOp),
    Win(WinOp),
    Upd(UpdOp),
    Del(DelOp),
    Ins(InsOp),
    Oc(OcOp),
    With(WithOp),
    Cte(CteOp),
    Wq(WqOp),
    Tc(TcOp),
    Ta(TaOp),
    Td(TdOp),
    Tr(TableRefSpec, TableRefSpec),
    Tt(TableRefSpec),
    Cd(CdOp),
    Ic(IcOp),
    Id(IdOp),
    Ti(TiOp),
    Fk(FkOp),
    Fd(FdOp),
}

/// the clause an op writes to, for the clear / reset rewriting rules of the model
#[derive(Clone, Copy, Debug, PartialEq, Eq, Serialize, Deserialize)]
pub enum Clause {
    Selects,
    From,
    Limit,
    Offset,
    OrderBy,
    Other,
}

impl Op {
    pub fn clause(&self) -> Clause {
        match self {
            Op::Ord(_) => Clause::OrderBy,
            Op::Sel(s) => match s {
                SelOp::Column(..)
                | SelOp::Columns(..)
                | SelOp::Expr(..)
                | SelOp::Exprs(..)
                | SelOp::ExprAs(..)
                | SelOp::ExprWindow(..)
                | SelOp::ExprWindowAs(..)
                | SelOp::ExprWindowName(..)
                | SelOp::ExprWindowNameAs(..)
                | SelOp::ExprsMutForEach(..) => Clause::Selects,
                SelOp::From(..)
                | SelOp::FromAs(..)
                | SelOp::FromValues(..)
                | SelOp::FromSubquery(..)
                | SelOp::FromFunction(..) => Clause::From,
                SelOp::Limit(_) => Clause::Limit,
                SelOp::Offset(_) => Clause::Offset,
                _ => Clause::Other,
            },
            Op::Upd(UpdOp::Limit(_)) | Op::Del(DelOp::Limit(_)) => Clause::Limit,
            _ => Clause::Other,
        }
    }

    pub fn applies_to(&self, fam: Family) -> bool {
        match self {
            Op::Ord(_) => matches!(
                fam,
                Family::Select | Family::Update | Family::Delete | Family::Window
            ),
            Op::Cond(_) => matches!(
                fam,
                Family::Select | Family::Update | Family::Delete | Family::IndexCreate
            ),
            Op::Sel(_) => fam == Family::Select,
            Op::Win(_) => fam == Family::Window,
            Op::Upd(_) => fam == Family::Update,
            Op::Del(_) => fam == Family::Delete,
            Op::Ins(_) => fam == Family::Insert,
            Op::Oc(_) => fam == Family::OnConflict,
            Op::With(_) => fam == Family::WithClause,
            Op::Cte(_) => fam == Family::Cte,
            Op::Wq(_) => fam == Family::WithQuery,
            Op::Tc(_) => fam == Family::TableCreate,
            Op::Ta(_) => fam == Family::TableAlter,
            Op::Td(_) => fam == Family::TableDrop,
            Op::Tr(..) => fam == Family::TableRename,
            Op::Tt(_) => fam == Family::TableTruncate,
            Op::Cd(_) => fam == Family::ColumnDef,
            Op::Ic(_) => fam == Family::IndexCreate,
            Op::Id(_) => fam == Family::IndexDrop,
            Op::Ti(_) => fam == Family::TableIndex,
            Op::Fk(f) => match f {
                FkOp::From(..) | FkOp::To(..) => fam == Family::FkCreate,
                _ => matches!(fam, Family::FkCreate | Family::TableFk),
            },
            Op::Fd(_) => fam == Family::FkDrop,
            Op::Pg(p) => {
                let k = format!("{:?}", p);
                match fam {
                    Family::TypeCreate => k.starts_with("Tyc"),
                    Family::TypeDrop => k.starts_with("Tyd"),
                    Family::TypeAlter => k.starts_with("Tya"),
                    Family::ExtCreate => k.starts_with("Exc"),
                    Family::ExtDrop => k.starts_with("Exd"),
                    _ => false,
                }
            }
        }
    }

    /// short op-kind name, used for signatures and evidence
    pub fn kind(&self) -> String {
        let s = format!("{:?}", self);
        // "Sel(Column(...))" -> "Sel.Column"
        let mut out = String::new();
        let mut depth = 0;
        for ch in s.chars() {
            match ch {
                '(' | '{' | ' ' => {
                    depth += 1;
                    if depth == 1 {
                        out.push('.');
                    } else {
                        break;
                    }
                }
                _ => out.push(ch),
            }
        }
        out.trim_end_matches(|c| c == '.' || c == ')').to_string()
    }

    /// closures are flattened in the model: `apply(|q| { a; b })` == `a; b`
    pub fn flatten(&self) -> Vec<Op> {
        match self {
            Op::Sel(SelOp::Apply(ops)) => ops.iter().flat_map(|o| o.flatten()).collect(),
            Op::Sel(SelOp::ApplyIf(b, ops)) => {
                if *b {
                    ops.iter().flat_map(|o| o.flatten()).collect()
                } else {
                    vec![]
                }
            }
            Op::Sel(SelOp::Conditions(b, t, f)) => {
                let ops = if *b { t } else { f };
                ops.iter().flat_map(|o| o.flatten()).collect()
            }
            other => vec![other.clone()],
        }
    }
}

// ------------------------------------------------------------------------------------------

pub fn construct(fam: Family, ctor: &Ctor, cx: &mut Ctx) -> Stmt {
    match (fam, ctor) {
        (Family::ColumnDef, Ctor::ColumnDef(n, None)) => Stmt::ColumnDef(ColumnDef::new(cx.iden(n))),
        (Family::ColumnDef, Ctor::ColumnDef(n, Some(t))) => {
            let n = cx.iden(n);
            Stmt::ColumnDef(ColumnDef::new_with_type(n, mat_coltype(t, cx)))
        }
        (Family::OnConflict, Ctor::OnConflictColumn(n)) => {
            Stmt::OnConflict(OnConflict::column(cx.iden(n)))
        }
        (Family::OnConflict, Ctor::OnConflictColumns(ns, b)) => {
            let v: Vec<DynIden> = ns.iter().map(|n| cx.iden(n)).collect();
            Stmt::OnConflict(OnConflict::columns(cx.iter(v, *b)))
        }
        (Family::Window, Ctor::WindowPartitionBy(c)) => {
            Stmt::Window(WindowStatement::partition_by(mat_colref(c, cx)))
        }
        (Family::Window, Ctor::WindowPartitionByCustom(s)) => {
            Stmt::Window(WindowStatement::partition_by_custom(s.clone()))
        }
        (Family::Cte, Ctor::CteFromSelect(s)) => {
            Stmt::Cte(CommonTableExpression::from_select(cx.sub_select(s)))
        }
        (Family::ColumnDef, Ctor::ColumnDefFromTable(t, i)) => cx.sub_with_ref(t, |st| match st {
            Stmt::TableCreate(t) => {
                let cols = t.get_columns();
                if cols.is_empty() {
                    Stmt::ColumnDef(ColumnDef::new(crate::seams::SimIden { name: "none".into(), live: false }))
                } else {
                    Stmt::ColumnDef(cols[*i as usize % cols.len()].clone())
                }
            }
            o => panic!("HARNESS: ColumnDefFromTable of {:?}", o.family()),
        }),
        (Family::IndexCreate, Ctor::IndexCreateFromTable(t, i)) => cx.sub_with_ref(t, |st| match st {
            Stmt::TableCreate(t) => {
                let v = t.get_indexes();
                if v.is_empty() {
                    Stmt::fresh(Family::IndexCreate)
                } else {
                    Stmt::IndexCreate(v[*i as usize % v.len()].clone())
                }
            }
            o => panic!("HARNESS: IndexCreateFromTable of {:?}", o.family()),
        }),
        (Family::FkCreate, Ctor::FkCreateFromTable(t, i)) => cx.sub_with_ref(t, |st| match st {
            Stmt::TableCreate(t) => {
                let v = t.get_foreign_key_create_stmts();
                if v.is_empty() {
                    Stmt::fresh(Family::FkCreate)
                } else {
                    Stmt::FkCreate(v[*i as usize % v.len()].clone())
                }
            }
            o => panic!("HARNESS: FkCreateFromTable of {:?}", o.family()),
        }),
        (Family::TableIndex, Ctor::TableIndexFromIndex(t)) => cx.sub_with_ref(t, |st| match st {
            Stmt::IndexCreate(i) => Stmt::TableIndex(i.get_index_spec().clone()),
            o => panic!("HARNESS: TableIndexFromIndex of {:?}", o.family()),
        }),
        (Family::TableFk, Ctor::TableFkFromFk(t)) => cx.sub_with_ref(t, |st| match st {
            Stmt::FkCreate(f) => Stmt::TableFk(f.get_foreign_key().clone()),
            o => panic!("HARNESS: TableFkFromFk of {:?}", o.family()),
        }),
        (f, Ctor::Default) => Stmt::fresh(f),
        (f, c) => panic!("HARNESS: ctor {:?} not valid for {:?}", c, f),
    }
}

fn jt(k: u8) -> JoinType {
    match k % 6 {
        0 => JoinType::Join,
        1 => JoinType::CrossJoin,
        2 => JoinType::InnerJoin,
        3 => JoinType::LeftJoin,
        4 => JoinType::RightJoin,
        _ => JoinType::FullOuterJoin,
    }
}

fn lock_type(k: u8) -> LockType {
    match k % 4 {
        0 => LockType::Update,
        1 => LockType::NoKeyUpdate,
        2 => LockType::Share,
        _ => LockType::KeyShare,
    }
}

fn lock_behavior(b: bool) -> LockBehavior {
    if b {
        LockBehavior::Nowait
    } else {
        LockBehavior::SkipLocked
    }
}

fn union_type(k: u8) -> UnionType {
    match k % 4 {
        0 => UnionType::Intersect,
        1 => UnionType::Distinct,
        2 => UnionType::Except,
        _ => UnionType::All,
    }
}

fn fk_action(k: u8) -> ForeignKeyAction {
    match k % 5 {
        0 => ForeignKeyAction::Restrict,
        1 => ForeignKeyAction::Cascade,
        2 => ForeignKeyAction::SetNull,
        3 => ForeignKeyAction::NoAction,
        _ => ForeignKeyAction::SetDefault,
    }
}

fn frame_type(rows: bool) -> FrameType {
    if rows {
        FrameType::Rows
    } else {
        FrameType::Range
    }
}

fn index_col(n: &IdenSpec, prefix: &Option<u32>, desc: &Option<bool>, cx: &mut Ctx) -> IndexColumn {
    let n = cx.iden(n);
    let ord = |d: bool| if d { IndexOrder::Desc } else { IndexOrder::Asc };
    match (prefix, desc) {
        (None, None) => n.into_index_column(),
        (Some(p), None) => (n, *p).into_index_column(),
        (None, Some(d)) => (n, ord(*d)).into_index_column(),
        (Some(p), Some(d)) => (n, *p, ord(*d)).into_index_column(),
    }
}

fn with_clause_of(s: Stmt) -> WithClause {
    match s {
        Stmt::WithClause(w) => w,
        Stmt::Cte(c) => c.into(),
        other => panic!("HARNESS: with_cte needs WithClause or Cte, got {:?}", other.family()),
    }
}

pub fn apply_ord<T: OrderedStatement>(t: &mut T, op: &OrdOp, cx: &mut Ctx) {
    match op {
        OrdOp::OrderBy(c, o) => {
            t.order_by(mat_colref(c, cx), mat_order(o));
        }
        OrdOp::OrderByExpr(e, o) => {
            t.order_by_expr(mat_expr(e, cx), mat_order(o));
        }
        OrdOp::OrderByCustoms(v, b) => {
            let items: Vec<(String, Order)> = v.iter().map(|(s, o)| (s.clone(), mat_order(o))).collect();
            t.order_by_customs(cx.iter(items, *b));
        }
        OrdOp::OrderByColumns(v, b) => {
            let items: Vec<(ColumnRef, Order)> =
                v.iter().map(|(c, o)| (mat_colref(c, cx), mat_order(o))).collect();
            t.order_by_columns(cx.iter(items, *b));
        }
        OrdOp::OrderByWithNulls(c, o, n) => {
            t.order_by_with_nulls(mat_colref(c, cx), mat_order(o), mat_nulls(*n));
        }
        OrdOp::OrderByExprWithNulls(e, o, n) => {
            t.order_by_expr_with_nulls(mat_expr(e, cx), mat_order(o), mat_nulls(*n));
        }
        OrdOp::OrderByCustomsWithNulls(v, b) => {
            let items: Vec<(String, Order, NullOrdering)> = v
                .iter()
                .map(|(s, o, n)| (s.clone(), mat_order(o), mat_nulls(*n)))
                .collect();
            t.order_by_customs_with_nulls(cx.iter(items, *b));
        }
        OrdOp::OrderByColumnsWithNulls(v, b) => {
            let items: Vec<(ColumnRef, Order, NullOrdering)> = v
                .iter()
                .map(|(c, o, n)| (mat_colref(c, cx), mat_order(o), mat_nulls(*n)))
                .collect();
            t.order_by_columns_with_nulls(cx.iter(items, *b));
        }
    }
}

pub fn apply_cond<T: ConditionalStatement>(t: &mut T, op: &CondOp, cx: &mut Ctx) {
    match op {
        CondOp::AndWhere(e) => {
            t.and_where(mat_expr(e, cx));
        }
        CondOp::AndWhereOption(e) => {
            let e = e.as_ref().map(|e| mat_expr(e, cx));
            t.and_where_option(e);
        }
        CondOp::CondWhere(c) => {
            t.cond_where(mat_cond(c, cx));
        }
    }
}

fn apply_closure_ops(q: &mut SelectStatement, ops: &[Op], cx: &mut Ctx) {
    // the closure body: operate on the `&mut SelectStatement` sea-query hands back
    let mut tmp = Stmt::Select(std::mem::take(q));
    for o in ops {
        apply_op(&mut tmp, o, cx).expect("HARNESS: closure op failed");
    }
    *q = tmp.into_select();
}

fn apply_sel(q: &mut SelectStatement, op: &SelOp, cx: &mut Ctx) {
    match op {
        SelOp::Distinct => {
            q.distinct();
        }
        SelOp::DistinctOn(cs, b) => {
            let v: Vec<ColumnRef> = cs.iter().map(|c| mat_colref(c, cx)).collect();
            q.distinct_on(cx.iter(v, *b));
        }
        SelOp::Column(c) => {
            q.column(mat_colref(c, cx));
        }
        SelOp::Columns(cs, b) => {
            let v: Vec<ColumnRef> = cs.iter().map(|c| mat_colref(c, cx)).collect();
            q.columns(cx.iter(v, *b));
        }
        SelOp::Expr(e) => {
            q.expr(mat_expr(e, cx));
        }
        SelOp::Exprs(es, b) => {
            let v: Vec<SimpleExpr> = es.iter().map(|e| mat_expr(e, cx)).collect();
            q.exprs(cx.iter(v, *b));
        }
        SelOp::ExprAs(e, a) => {
            let e = mat_expr(e, cx);
            q.expr_as(e, cx.iden(a));
        }
        SelOp::ExprWindow(e, w) => {
            let e = mat_expr(e, cx);
            q.expr_window(e, cx.sub_owned(w).into_window());
        }
        SelOp::ExprWindowAs(e, w, a) => {
            let e = mat_expr(e, cx);
            let w = cx.sub_owned(w).into_window();
            q.expr_window_as(e, w, cx.iden(a));
        }
        SelOp::ExprWindowName(e, n) => {
            let e = mat_expr(e, cx);
            q.expr_window_name(e, cx.iden(n));
        }
        SelOp::ExprWindowNameAs(e, n, a) => {
            let e = mat_expr(e, cx);
            let n = cx.iden(n);
            q.expr_window_name_as(e, n, cx.iden(a));
        }
        SelOp::ExprsMutForEach(m) => match m {
            MutEach::SetAlias(a) => {
                let a = cx.iden(a);
                q.exprs_mut_for_each(|e| e.alias = Some(a.clone()));
            }
            MutEach::ClearAlias => q.exprs_mut_for_each(|e| e.alias = None),
            MutEach::ClearWindow => q.exprs_mut_for_each(|e| e.window = None),
            MutEach::WrapMax => q.exprs_mut_for_each(|e| {
                let inner = std::mem::replace(&mut e.expr, SimpleExpr::Custom(String::new()));
                e.expr = Func::max(inner).into();
            }),
        },
        SelOp::From(t) => {
            q.from(mat_tableref(t, cx));
        }
        SelOp::FromAs(t, a) => {
            let t = mat_tableref(t, cx);
            q.from_as(t, cx.iden(a));
        }
        SelOp::FromValues(rows, a, b) => {
            let v: Vec<ValueTuple> = rows.iter().map(|r| mat_value_tuple(r)).collect();
            let it = cx.iter(v, *b);
            q.from_values(it, cx.iden(a));
        }
        SelOp::FromSubquery(s, a) => {
            let s = cx.sub_select(s);
            q.from_subquery(s, cx.iden(a));
        }
        SelOp::FromFunction(f, a) => {
            let f = mat_func(f, cx);
            q.from_function(f, cx.iden(a));
        }
        SelOp::Join { method, jt: j, tbl, cond } => {
            let t = mat_tableref(tbl, cx);
            let c = mat_cond(cond, cx);
            match method % 6 {
                0 => q.join(jt(*j), t, c),
                1 => q.cross_join(t, c),
                2 => q.left_join(t, c),
                3 => q.right_join(t, c),
                4 => q.inner_join(t, c),
                _ => q.full_outer_join(t, c),
            };
        }
        SelOp::JoinAs { jt: j, tbl, alias, cond } => {
            let t = mat_tableref(tbl, cx);
            let a = cx.iden(alias);
            let c = mat_cond(cond, cx);
            q.join_as(jt(*j), t, a, c);
        }
        SelOp::JoinSubquery { jt: j, sub, alias, cond } => {
            let s = cx.sub_select(sub);
            let a = cx.iden(alias);
            let c = mat_cond(cond, cx);
            q.join_subquery(jt(*j), s, a, c);
        }
        SelOp::JoinLateral { jt: j, sub, alias, cond } => {
            let s = cx.sub_select(sub);
            let a = cx.iden(alias);
            let c = mat_cond(cond, cx);
            q.join_lateral(jt(*j), s, a, c);
        }
        SelOp::GroupByColumns(cs, b) => {
            let v: Vec<ColumnRef> = cs.iter().map(|c| mat_colref(c, cx)).collect();
            q.group_by_columns(cx.iter(v, *b));
        }
        SelOp::GroupByCol(c) => {
            q.group_by_col(mat_colref(c, cx));
        }
        SelOp::AddGroupBy(es, b) => {
            let v: Vec<SimpleExpr> = es.iter().map(|e| mat_expr(e, cx)).collect();
            q.add_group_by(cx.iter(v, *b));
        }
        SelOp::CondHaving(c) => {
            q.cond_having(mat_cond(c, cx));
        }
        SelOp::AndHaving(e) => {
            q.and_having(mat_expr(e, cx));
        }
        SelOp::Limit(n) => {
            q.limit(*n);
        }
        SelOp::Offset(n) => {
            q.offset(*n);
        }
        SelOp::Lock(t) => {
            q.lock(lock_type(*t));
        }
        SelOp::LockWithTables(t, ts, b) => {
            let v: Vec<TableRef> = ts.iter().map(|t| mat_tableref(t, cx)).collect();
            q.lock_with_tables(lock_type(*t), cx.iter(v, *b));
        }
        SelOp::LockWithBehavior(t, bh) => {
            q.lock_with_behavior(lock_type(*t), lock_behavior(*bh));
        }
        SelOp::LockWithTablesBehavior(t, ts, b, bh) => {
            let v: Vec<TableRef> = ts.iter().map(|t| mat_tableref(t, cx)).collect();
            q.lock_with_tables_behavior(lock_type(*t), cx.iter(v, *b), lock_behavior(*bh));
        }
        SelOp::LockShared => {
            q.lock_shared();
        }
        SelOp::LockExclusive => {
            q.lock_exclusive();
        }
        SelOp::Union(t, s) => {
            q.union(union_type(*t), cx.sub_select(s));
        }
        SelOp::Unions(us, b) => {
            let v: Vec<(UnionType, SelectStatement)> =
                us.iter().map(|(t, s)| (union_type(*t), cx.sub_select(s))).collect();
            q.unions(cx.iter(v, *b));
        }
        SelOp::WithCte(s) => {
            q.with_cte(with_clause_of(cx.sub_owned(s)));
        }
        SelOp::Window(n, w) => {
            let n = cx.iden(n);
            q.window(n, cx.sub_owned(w).into_window());
        }
        SelOp::TableSample(bern, pct, rep) => {
            q.table_sample(
                if *bern { SampleMethod::BERNOULLI } else { SampleMethod::SYSTEM },
                *pct as f64 / 4.0,
                rep.map(|r| r as f64 / 8.0),
            );
        }
        SelOp::IndexHint { kind, name, scope } => {
            let n = cx.iden(name);
            let sc = match scope % 4 {
                0 => IndexHintScope::Join,
                1 => IndexHintScope::OrderBy,
                2 => IndexHintScope::GroupBy,
                _ => IndexHintScope::All,
            };
            match kind % 3 {
                0 => q.use_index(n, sc),
                1 => q.force_index(n, sc),
                _ => q.ignore_index(n, sc),
            };
        }
        SelOp::Apply(ops) => {
            q.apply(|q| apply_closure_ops(q, ops, cx));
        }
        SelOp::ApplyIf(b, ops) => {
            let val = if *b { Some(7u8) } else { None };
            q.apply_if(val, |q, _v| apply_closure_ops(q, ops, cx));
        }
        SelOp::Conditions(b, t, f) => {
            // both closures need the context; only one of them runs
            let cell = std::cell::RefCell::new(cx);
            q.conditions(
                *b,
                |q| apply_closure_ops(q, t, &mut cell.borrow_mut()),
                |q| apply_closure_ops(q, f, &mut cell.borrow_mut()),
            );
        }
    }
}

fn apply_win(w: &mut WindowStatement, op: &WinOp, cx: &mut Ctx) {
    match op {
        WinOp::PartitionBy(c) => {
            OverStatement::partition_by(w, mat_colref(c, cx));
        }
        WinOp::PartitionByCustoms(v, b) => {
            w.partition_by_customs(cx.iter(v.clone(), *b));
        }
        WinOp::PartitionByColumns(cs, b) => {
            let v: Vec<ColumnRef> = cs.iter().map(|c| mat_colref(c, cx)).collect();
            w.partition_by_columns(cx.iter(v, *b));
        }
        WinOp::AddPartitionBy(e) => {
            w.add_partition_by(mat_expr(e, cx));
        }
        WinOp::FrameStart(rows, s) => {
            w.frame_start(frame_type(*rows), mat_frame(s));
        }
        WinOp::FrameBetween(rows, s, e) => {
            w.frame_between(frame_type(*rows), mat_frame(s), mat_frame(e));
        }
        WinOp::Frame(rows, s, e) => {
            w.frame(frame_type(*rows), mat_frame(s), e.as_ref().map(mat_frame));
        }
    }
}

fn apply_upd(u: &mut UpdateStatement, op: &UpdOp, cx: &mut Ctx) {
    match op {
        UpdOp::Table(t) => {
            u.table(mat_tableref(t, cx));
        }
        UpdOp::From(t) => {
            u.from(mat_tableref(t, cx));
        }
        UpdOp::Values(v, b) => {
            let items: Vec<(DynIden, SimpleExpr)> =
                v.iter().map(|(n, e)| (cx.iden(n), mat_expr(e, cx))).collect();
            u.values(cx.iter(items, *b));
        }
        UpdOp::Value(n, e) => {
            let n = cx.iden(n);
            u.value(n, mat_expr(e, cx));
        }
        UpdOp::Limit(n) => {
            u.limit(*n);
        }
        UpdOp::Returning(r) => {
            u.returning(mat_returning(r, cx));
        }
        UpdOp::ReturningCol(c) => {
            u.returning_col(mat_colref(c, cx));
        }
        UpdOp::ReturningAll => {
            u.returning_all();
        }
        UpdOp::WithCte(s) => {
            u.with_cte(with_clause_of(cx.sub_owned(s)));
        }
    }
}

fn apply_del(d: &mut DeleteStatement, op: &DelOp, cx: &mut Ctx) {
    match op {
        DelOp::FromTable(t) => {
            d.from_table(mat_tableref(t, cx));
        }
        DelOp::Limit(n) => {
            d.limit(*n);
        }
        DelOp::Returning(r) => {
            d.returning(mat_returning(r, cx));
        }
        DelOp::ReturningCol(c) => {
            d.returning_col(mat_colref(c, cx));
        }
        DelOp::ReturningAll => {
            d.returning_all();
        }
        DelOp::WithCte(s) => {
            d.with_cte(with_clause_of(cx.sub_owned(s)));
        }
    }
}

/// the error's *content* (which kind, both counts), independent of how it prints
fn canon_err(e: &sea_query::error::Error) -> String {
    match e {
        sea_query::error::Error::ColValNumMismatch { col_len, val_len } => {
            format!("ColValNumMismatch {{ col_len: {}, val_len: {} }}", col_len, val_len)
        }
    }
}

fn apply_ins(i: &mut InsertStatement, op: &InsOp, cx: &mut Ctx) -> Result<(), String> {
    match op {
        InsOp::Replace => {
            i.replace();
        }
        InsOp::IntoTable(t) => {
            i.into_table(mat_tableref(t, cx));
        }
        InsOp::Columns(ns, b) => {
            let v: Vec<DynIden> = ns.iter().map(|n| cx.iden(n)).collect();
            i.columns(cx.iter(v, *b));
        }
        InsOp::Values(es, b) => {
            let v: Vec<SimpleExpr> = es.iter().map(|e| mat_expr(e, cx)).collect();
            let it = cx.iter(v, *b);
            if let Err(e) = i.values(it) {
                return Err(canon_err(&e));
            }
        }
        InsOp::ValuesPanic(es, b) => {
            let v: Vec<SimpleExpr> = es.iter().map(|e| mat_expr(e, cx)).collect();
            i.values_panic(cx.iter(v, *b));
        }
        InsOp::ValuesFromPanic(rows, b) => {
            let mut outer = Vec::new();
            for (es, rb) in rows {
                let v: Vec<SimpleExpr> = es.iter().map(|e| mat_expr(e, cx)).collect();
                outer.push(cx.iter(v, *rb));
            }
            i.values_from_panic(cx.iter(outer, *b));
        }
        InsOp::SelectFrom(s) => {
            let sel = cx.sub_select(s);
            if let Err(e) = i.select_from(sel) {
                return Err(canon_err(&e));
            }
        }
        InsOp::OnConflict(s) => {
            i.on_conflict(cx.sub_owned(s).into_on_conflict());
        }
        InsOp::Returning(r) => {
            i.returning(mat_returning(r, cx));
        }
        InsOp::ReturningCol(c) => {
            i.returning_col(mat_colref(c, cx));
        }
        InsOp::ReturningAll => {
            i.returning_all();
        }
        InsOp::WithCte(s) => {
            i.with_cte(with_clause_of(cx.sub_owned(s)));
        }
        InsOp::OrDefaultValues => {
            i.or_default_values();
        }
        InsOp::OrDefaultValuesMany(n) => {
            i.or_default_values_many(*n);
        }
    }
    Ok(())
}

fn apply_oc(o: &mut OnConflict, op: &OcOp, cx: &mut Ctx) {
    match op {
        OcOp::Expr(e) => {
            o.expr(mat_expr(e, cx));
        }
        OcOp::Exprs(es, b) => {
            let v: Vec<SimpleExpr> = es.iter().map(|e| mat_expr(e, cx)).collect();
            o.exprs(cx.iter(v, *b));
        }
        OcOp::DoNothing => {
            o.do_nothing();
        }
        OcOp::DoNothingOn(ns, b) => {
            let v: Vec<DynIden> = ns.iter().map(|n| cx.iden(n)).collect();
            o.do_nothing_on(cx.iter(v, *b));
        }
        OcOp::UpdateColumn(n) => {
            o.update_column(cx.iden(n));
        }
        OcOp::UpdateColumns(ns, b) => {
            let v: Vec<DynIden> = ns.iter().map(|n| cx.iden(n)).collect();
            o.update_columns(cx.iter(v, *b));
        }
        OcOp::Values(v, b) => {
            let items: Vec<(DynIden, SimpleExpr)> =
                v.iter().map(|(n, e)| (cx.iden(n), mat_expr(e, cx))).collect();
            o.values(cx.iter(items, *b));
        }
        OcOp::Value(n, e) => {
            let n = cx.iden(n);
            o.value(n, mat_expr(e, cx));
        }
        OcOp::TargetAndWhere(e) => {
            o.target_and_where(mat_expr(e, cx));
        }
        OcOp::TargetAndWhereOption(e) => {
            let e = e.as_ref().map(|e| mat_expr(e, cx));
            o.target_and_where_option(e);
        }
        OcOp::TargetCondWhere(c) => {
            o.target_cond_where(mat_cond(c, cx));
        }
        OcOp::ActionAndWhere(e) => {
            o.action_and_where(mat_expr(e, cx));
        }
        OcOp::ActionAndWhereOption(e) => {
            let e = e.as_ref().map(|e| mat_expr(e, cx));
            o.action_and_where_option(e);
        }
        OcOp::ActionCondWhere(c) => {
            o.action_cond_where(mat_cond(c, cx));
        }
    }
}

fn mat_search(breadth: bool, e: &ExprSpec, a: &IdenSpec, cx: &mut Ctx) -> Search {
    let expr = mat_expr(e, cx);
    let alias = cx.iden(a);
    Search::new_from_order_and_expr(
        if breadth { SearchOrder::BREADTH } else { SearchOrder::DEPTH },
        SelectExpr {
            expr,
            alias: Some(alias),
            window: None,
        },
    )
}

fn mat_cycle(e: &ExprSpec, s: &IdenSpec, u: &IdenSpec, cx: &mut Ctx) -> Cycle {
    let e = mat_expr(e, cx);
    let s = cx.iden(s);
    Cycle::new_from_expr_set_using(e, s, cx.iden(u))
}

fn apply_with(w: &mut WithClause, op: &WithOp, cx: &mut Ctx) {
    match op {
        WithOp::Recursive(b) => {
            w.recursive(*b);
        }
        WithOp::Search(b, e, a) => {
            w.search(mat_search(*b, e, a, cx));
        }
        WithOp::Cycle(e, s, u) => {
            w.cycle(mat_cycle(e, s, u, cx));
        }
        WithOp::Cte(s) => {
            w.cte(cx.sub_owned(s).into_cte());
        }
    }
}

fn apply_cte(c: &mut CommonTableExpression, op: &CteOp, cx: &mut Ctx) {
    match op {
        CteOp::TableName(n) => {
            c.table_name(cx.iden(n));
        }
        CteOp::Column(n) => {
            c.column(cx.iden(n));
        }
        CteOp::Columns(ns, b) => {
            let v: Vec<DynIden> = ns.iter().map(|n| cx.iden(n)).collect();
            c.columns(cx.iter(v, *b));
        }
        CteOp::Materialized(b) => {
            c.materialized(*b);
        }
        CteOp::TrySetColsFromSelect(s) => {
            cx.sub_with_ref(s, |st| match st {
                Stmt::Select(q) => {
                    c.try_set_cols_from_select(q);
                }
                o => panic!("HARNESS: try_set_cols_from_select of {:?}", o.family()),
            });
        }
        CteOp::Query(s) => match cx.sub_owned(s) {
            Stmt::Select(q) => {
                c.query(q);
            }
            Stmt::Insert(q) => {
                c.query(q);
            }
            Stmt::Update(q) => {
                c.query(q);
            }
            Stmt::Delete(q) => {
                c.query(q);
            }
            Stmt::WithQuery(q) => {
                c.query(q);
            }
            other => panic!("HARNESS: cte query of family {:?}", other.family()),
        },
    }
}

fn apply_wq(w: &mut WithQuery, op: &WqOp, cx: &mut Ctx) {
    match op {
        WqOp::WithClause(s) => {
            w.with_clause(with_clause_of(cx.sub_owned(s)));
        }
        WqOp::Recursive(b) => {
            w.recursive(*b);
        }
        WqOp::Search(b, e, a) => {
            w.search(mat_search(*b, e, a, cx));
        }
        WqOp::Cycle(e, s, u) => {
            w.cycle(mat_cycle(e, s, u, cx));
        }
        WqOp::Cte(s) => {
            w.cte(cx.sub_owned(s).into_cte());
        }
        WqOp::Query(s) => match cx.sub_owned(s) {
            Stmt::Select(q) => {
                w.query(q);
            }
            Stmt::Insert(q) => {
                w.query(q);
            }
            Stmt::Update(q) => {
                w.query(q);
            }
            Stmt::Delete(q) => {
                w.query(q);
            }
            other => panic!("HARNESS: with query of family {:?}", other.family()),
        },
    }
}

/// `&mut ColumnDef` form (sea-query calls take()) versus by-value form
fn with_column_def<R>(
    s: &Sub,
    by_mut: bool,
    cx: &mut Ctx,
    by_ref: impl FnOnce(&mut ColumnDef) -> R,
    by_val: impl FnOnce(ColumnDef) -> R,
) -> R {
    let handle_take = matches!(s, Sub::Handle { mode: SubMode::Take, .. });
    let handle_other = matches!(s, Sub::Handle { .. }) && !handle_take;
    if handle_take || (by_mut && !handle_other) {
        cx.sub_with_mut(s, |st| by_ref(st.as_column_def()))
    } else {
        by_val(cx.sub_owned(s).into_column_def())
    }
}

/// `&mut X` API: hand sea-query the live handle when the step says Take, a temporary otherwise
fn with_sub_mut<R>(s: &Sub, cx: &mut Ctx, f: impl FnOnce(&mut Stmt) -> R) -> R {
    match s {
        Sub::Handle { mode: SubMode::Take, .. } | Sub::Inline(_) => cx.sub_with_mut(s, f),
        Sub::Handle { .. } => {
            let mut tmp = cx.sub_owned(s);
            f(&mut tmp)
        }
    }
}

fn apply_tc(t: &mut TableCreateStatement, op: &TcOp, cx: &mut Ctx) {
    match op {
        TcOp::IfNotExists => {
            t.if_not_exists();
        }
        TcOp::Table(r) => {
            t.table(mat_tableref(r, cx));
        }
        TcOp::Comment(s) => {
            t.comment(s.clone());
        }
        TcOp::Col(s, by_mut) => {
            // two-phase to keep the borrow of `t` out of the closures' way
            enum Got {
                V(ColumnDef),
            }
            let got = with_column_def(
                s,
                *by_mut,
                cx,
                |c| {
                    // exercise `impl IntoColumnDef for &mut ColumnDef` (calls take())
                    Got::V(IntoColumnDef::into_column_def(c))
                },
                Got::V,
            );
            let Got::V(c) = got;
            t.col(c);
        }
        TcOp::Check(e) => {
            t.check(mat_expr(e, cx));
        }
        TcOp::Index(s) => {
            with_sub_mut(s, cx, |st| {
                t.index(st.as_index_create());
            });
        }
        TcOp::PrimaryKey(s) => {
            with_sub_mut(s, cx, |st| {
                t.primary_key(st.as_index_create());
            });
        }
        TcOp::ForeignKey(s) => {
            with_sub_mut(s, cx, |st| {
                t.foreign_key(st.as_fk_create());
            });
        }
        TcOp::Engine(s) => {
            t.engine(s.clone());
        }
        TcOp::Collate(s) => {
            t.collate(s.clone());
        }
        TcOp::CharacterSet(s) => {
            t.character_set(s.clone());
        }
        TcOp::Extra(s) => {
            t.extra(s.clone());
        }
        TcOp::Temporary => {
            t.temporary();
        }
    }
}

fn apply_ta(t: &mut TableAlterStatement, op: &TaOp, cx: &mut Ctx) {
    match op {
        TaOp::Table(r) => {
            t.table(mat_tableref(r, cx));
        }
        TaOp::AddColumn(s, by_mut) => {
            let c = with_column_def(s, *by_mut, cx, |c| IntoColumnDef::into_column_def(c), |c| c);
            t.add_column(c);
        }
        TaOp::AddColumnIfNotExists(s, by_mut) => {
            let c = with_column_def(s, *by_mut, cx, |c| IntoColumnDef::into_column_def(c), |c| c);
            t.add_column_if_not_exists(c);
        }
        TaOp::ModifyColumn(s, by_mut) => {
            let c = with_column_def(s, *by_mut, cx, |c| IntoColumnDef::into_column_def(c), |c| c);
            t.modify_column(c);
        }
        TaOp::RenameColumn(a, b) => {
            let a = cx.iden(a);
            t.rename_column(a, cx.iden(b));
        }
        TaOp::DropColumn(a) => {
            t.drop_column(cx.iden(a));
        }
        TaOp::AddForeignKey(s) => {
            cx.sub_with_ref(s, |st| match st {
                Stmt::TableFk(fk) => {
                    t.add_foreign_key(fk);
                }
                other => panic!("HARNESS: add_foreign_key of {:?}", other.family()),
            });
        }
        TaOp::DropForeignKey(a) => {
            t.drop_foreign_key(cx.iden(a));
        }
    }
}

fn apply_cd(c: &mut ColumnDef, op: &CdOp, cx: &mut Ctx) {
    match op {
        CdOp::NotNull => {
            c.not_null();
        }
        CdOp::Null => {
            c.null();
        }
        CdOp::Default(e) => {
            c.default(mat_expr(e, cx));
        }
        CdOp::AutoIncrement => {
            c.auto_increment();
        }
        CdOp::UniqueKey => {
            c.unique_key();
        }
        CdOp::PrimaryKey => {
            c.primary_key();
        }
        CdOp::Type(t) => apply_cd_type(c, t, cx),
        CdOp::Check(e) => {
            c.check(mat_expr(e, cx));
        }
        CdOp::Generated(e, stored) => {
            c.generated(mat_expr(e, cx), *stored);
        }
        CdOp::Extra(s) => {
            c.extra(s.clone());
        }
        CdOp::Using(e) => {
            c.using(mat_expr(e, cx));
        }
        CdOp::Comment(s) => {
            c.comment(s.clone());
        }
    }
}

fn apply_cd_type(c: &mut ColumnDef, t: &ColTypeSpec, cx: &mut Ctx) {
    match t {
        ColTypeSpec::Simple(k) => {
            match k % 26 {
                0 => c.text(),
                1 => c.blob(),
                2 => c.tiny_integer(),
                3 => c.small_integer(),
                4 => c.integer(),
                5 => c.big_integer(),
                6 => c.tiny_unsigned(),
                7 => c.small_unsigned(),
                8 => c.unsigned(),
                9 => c.big_unsigned(),
                10 => c.float(),
                11 => c.double(),
                12 => c.date_time(),
                13 => c.timestamp(),
                14 => c.timestamp_with_time_zone(),
                15 => c.time(),
                16 => c.date(),
                17 => c.year(),
                18 => c.boolean(),
                19 => c.json(),
                20 => c.json_binary(),
                21 => c.uuid(),
                22 => c.cidr(),
                23 => c.inet(),
                24 => c.mac_address(),
                _ => c.ltree(),
            };
        }
        ColTypeSpec::Char(None) => {
            c.char();
        }
        ColTypeSpec::Char(Some(n)) => {
            c.char_len(*n);
        }
        ColTypeSpec::StringN(None) => {
            c.string();
        }
        ColTypeSpec::StringN(Some(n)) => {
            c.string_len(*n);
        }
        ColTypeSpec::Decimal(None) => {
            c.decimal();
        }
        ColTypeSpec::Decimal(Some((p, s))) => {
            c.decimal_len(*p, *s);
        }
        ColTypeSpec::Binary(n) => {
            if *n == 1 {
                c.binary();
            } else {
                c.binary_len(*n);
            }
        }
        ColTypeSpec::VarBinary(n) => {
            c.var_binary(*n);
        }
        ColTypeSpec::Bit(n) => {
            c.bit(*n);
        }
        ColTypeSpec::VarBit(n) => {
            c.varbit(*n);
        }
        ColTypeSpec::Money(None) => {
            c.money();
        }
        ColTypeSpec::Money(Some((p, s))) => {
            c.money_len(*p, *s);
        }
        ColTypeSpec::Interval(f, p) => {
            c.interval(f.map(mat_pg_interval), *p);
        }
        ColTypeSpec::Custom(n) => {
            c.custom(cx.iden(n));
        }
        ColTypeSpec::Enum(n, vs) => {
            let n = cx.iden(n);
            let v: Vec<DynIden> = vs.iter().map(|v| cx.iden(v)).collect();
            c.enumeration(n, cx.iter(v, IterB::Honest));
        }
        ColTypeSpec::Array(inner) => {
            c.array(mat_coltype(inner, cx));
        }
    }
}

fn apply_ic(i: &mut IndexCreateStatement, op: &IcOp, cx: &mut Ctx) {
    match op {
        IcOp::IfNotExists => {
            i.if_not_exists();
        }
        IcOp::Name(s) => {
            i.name(s.clone());
        }
        IcOp::Table(t) => {
            i.table(mat_tableref(t, cx));
        }
        IcOp::Col(n, p, d) => {
            i.col(index_col(n, p, d, cx));
        }
        IcOp::Primary => {
            i.primary();
        }
        IcOp::Unique => {
            i.unique();
        }
        IcOp::NullsNotDistinct => {
            i.nulls_not_distinct();
        }
        IcOp::FullText => {
            i.full_text();
        }
        IcOp::IndexType(k, n) => {
            let t = match (k % 4, n) {
                (0, _) => IndexType::BTree,
                (1, _) => IndexType::FullText,
                (2, _) => IndexType::Hash,
                (_, Some(n)) => IndexType::Custom(cx.iden(n)),
                (_, None) => IndexType::BTree,
            };
            i.index_type(t);
        }
        IcOp::Include(n) => {
            i.include(cx.iden(n));
        }
    }
}

fn apply_fk_common(f: &mut TableForeignKey, op: &FkOp, cx: &mut Ctx) {
    match op {
        FkOp::Name(s) => {
            f.name(s.clone());
        }
        FkOp::FromTbl(t) => {
            f.from_tbl(mat_tableref(t, cx));
        }
        FkOp::ToTbl(t) => {
            f.to_tbl(mat_tableref(t, cx));
        }
        FkOp::FromCol(n) => {
            f.from_col(cx.iden(n));
        }
        FkOp::ToCol(n) => {
            f.to_col(cx.iden(n));
        }
        FkOp::OnDelete(k) => {
            f.on_delete(fk_action(*k));
        }
        FkOp::OnUpdate(k) => {
            f.on_update(fk_action(*k));
        }
        FkOp::From(..) | FkOp::To(..) => panic!("HARNESS: from/to on TableForeignKey"),
    }
}

fn iden_list_call<R>(ns: &[IdenSpec], cx: &mut Ctx, f1: impl FnOnce(DynIden) -> R, f2: impl FnOnce((DynIden, DynIden)) -> R, f3: impl FnOnce((DynIden, DynIden, DynIden)) -> R) -> R {
    match ns.len() {
        1 => f1(cx.iden(&ns[0])),
        2 => {
            let a = cx.iden(&ns[0]);
            f2((a, cx.iden(&ns[1])))
        }
        _ => {
            let a = cx.iden(&ns[0]);
            let b = cx.iden(&ns[1]);
            f3((a, b, cx.iden(&ns[2])))
        }
    }
}

fn apply_fc(f: &mut ForeignKeyCreateStatement, op: &FkOp, cx: &mut Ctx) {
    match op {
        FkOp::Name(s) => {
            f.name(s.clone());
        }
        FkOp::From(t, ns) => {
            let t = mat_tableref(t, cx);
            // the three IdenList arities
            let f = std::cell::RefCell::new(f);
            let t = std::cell::RefCell::new(Some(t));
            iden_list_call(
                ns,
                cx,
                |a| {
                    f.borrow_mut().from(t.borrow_mut().take().unwrap(), a);
                },
                |ab| {
                    f.borrow_mut().from(t.borrow_mut().take().unwrap(), ab);
                },
                |abc| {
                    f.borrow_mut().from(t.borrow_mut().take().unwrap(), abc);
                },
            );
        }
        FkOp::To(t, ns) => {
            let t = mat_tableref(t, cx);
            let f = std::cell::RefCell::new(f);
            let t = std::cell::RefCell::new(Some(t));
            iden_list_call(
                ns,
                cx,
                |a| {
                    f.borrow_mut().to(t.borrow_mut().take().unwrap(), a);
                },
                |ab| {
                    f.borrow_mut().to(t.borrow_mut().take().unwrap(), ab);
                },
                |abc| {
                    f.borrow_mut().to(t.borrow_mut().take().unwrap(), abc);
                },
            );
        }
        FkOp::FromTbl(t) => {
            f.from_tbl(mat_tableref(t, cx));
        }
        FkOp::ToTbl(t) => {
            f.to_tbl(mat_tableref(t, cx));
        }
        FkOp::FromCol(n) => {
            f.from_col(cx.iden(n));
        }
        FkOp::ToCol(n) => {
            f.to_col(cx.iden(n));
        }
        FkOp::OnDelete(k) => {
            f.on_delete(fk_action(*k));
        }
        FkOp::OnUpdate(k) => {
            f.on_update(fk_action(*k));
        }
    }
}

fn type_ref(ns: &[IdenSpec], cx: &mut Ctx) -> sea_query::extension::postgres::TypeRef {
    use sea_query::extension::postgres::IntoTypeRef;
    match ns.len() {
        0 | 1 => cx
            .iden(ns.first().unwrap_or(&IdenSpec { n: "t".into(), slot: None, alias: false }))
            .into_type_ref(),
        2 => {
            let a = cx.iden(&ns[0]);
            (a, cx.iden(&ns[1])).into_type_ref()
        }
        _ => {
            let a = cx.iden(&ns[0]);
            let b = cx.iden(&ns[1]);
            (a, b, cx.iden(&ns[2])).into_type_ref()
        }
    }
}

fn apply_pg(s: &mut Stmt, op: &PgExtOp, cx: &mut Ctx) {
    match (s, op) {
        (Stmt::TypeCreate(t), PgExtOp::TycAsEnum(n)) => {
            t.as_enum(type_ref(n, cx));
        }
        (Stmt::TypeCreate(t), PgExtOp::TycValues(v, b)) => {
            let vs: Vec<DynIden> = v.iter().map(|x| cx.iden(x)).collect();
            t.values(cx.iter(vs, *b));
        }
        (Stmt::TypeDrop(t), PgExtOp::TydName(n)) => {
            t.name(type_ref(n, cx));
        }
        (Stmt::TypeDrop(t), PgExtOp::TydNames(ns, b)) => {
            let vs: Vec<sea_query::extension::postgres::TypeRef> = ns.iter().map(|n| type_ref(n, cx)).collect();
            t.names(cx.iter(vs, *b));
        }
        (Stmt::TypeDrop(t), PgExtOp::TydIfExists) => {
            t.if_exists();
        }
        (Stmt::TypeDrop(t), PgExtOp::TydCascade) => {
            t.cascade();
        }
        (Stmt::TypeDrop(t), PgExtOp::TydRestrict) => {
            t.restrict();
        }
        (Stmt::TypeAlter(t), o) => {
            let cur = std::mem::take(t);
            *t = match o {
                PgExtOp::TyaName(n) => cur.name(type_ref(n, cx)),
                PgExtOp::TyaAddValue(v) => cur.add_value(cx.iden(v)),
                PgExtOp::TyaBefore(v) => cur.before(cx.iden(v)),
                PgExtOp::TyaAfter(v) => cur.after(cx.iden(v)),
                PgExtOp::TyaIfNotExists => cur.if_not_exists(),
                PgExtOp::TyaRenameTo(v) => cur.rename_to(cx.iden(v)),
                PgExtOp::TyaRenameValue(a, b) => {
                    let a = cx.iden(a);
                    cur.rename_value(a, cx.iden(b))
                }
                other => panic!("HARNESS: {:?} on TypeAlter", other),
            };
        }
        (Stmt::ExtCreate(t), PgExtOp::ExcName(x)) => {
            t.name(x.clone());
        }
        (Stmt::ExtCreate(t), PgExtOp::ExcSchema(x)) => {
            t.schema(x.clone());
        }
        (Stmt::ExtCreate(t), PgExtOp::ExcVersion(x)) => {
            t.version(x.clone());
        }
        (Stmt::ExtCreate(t), PgExtOp::ExcCascade) => {
            t.cascade();
        }
        (Stmt::ExtCreate(t), PgExtOp::ExcIfNotExists) => {
            t.if_not_exists();
        }
        (Stmt::ExtDrop(t), PgExtOp::ExdName(x)) => {
            t.name(x.clone());
        }
        (Stmt::ExtDrop(t), PgExtOp::ExdIfExists) => {
            t.if_exists();
        }
        (Stmt::ExtDrop(t), PgExtOp::ExdCascade) => {
            t.cascade();
        }
        (Stmt::ExtDrop(t), PgExtOp::ExdRestrict) => {
            t.restrict();
        }
        (s, o) => panic!("HARNESS: {:?} on {:?}", o, s.family()),
    }
}

/// Perform one builder call. `Err` = the call returned `Err` (only INSERT row ops can).
/// Panics propagate to the caller (which decides whether they were injected / expected).
pub fn apply_op(s: &mut Stmt, op: &Op, cx: &mut Ctx) -> Result<(), String> {
    match (s, op) {
        (Stmt::Select(q), Op::Ord(o)) => apply_ord(q, o, cx),
        (Stmt::Update(q), Op::Ord(o)) => apply_ord(q, o, cx),
        (Stmt::Delete(q), Op::Ord(o)) => apply_ord(q, o, cx),
        (Stmt::Window(q), Op::Ord(o)) => apply_ord(q, o, cx),
        (Stmt::Select(q), Op::Cond(o)) => apply_cond(q, o, cx),
        (Stmt::Update(q), Op::Cond(o)) => apply_cond(q, o, cx),
        (Stmt::Delete(q), Op::Cond(o)) => apply_cond(q, o, cx),
        (Stmt::IndexCreate(q), Op::Cond(o)) => apply_cond(q, o, cx),
        (Stmt::Select(q), Op::Sel(o)) => apply_sel(q, o, cx),
        (Stmt::Window(q), Op::Win(o)) => apply_win(q, o, cx),
        (Stmt::Update(q), Op::Upd(o)) => apply_upd(q, o, cx),
        (Stmt::Delete(q), Op::Del(o)) => apply_del(q, o, cx),
        (Stmt::Insert(q), Op::Ins(o)) => return apply_ins(q, o, cx),
        (Stmt::OnConflict(q), Op::Oc(o)) => apply_oc(q, o, cx),
        (Stmt::WithClause(q), Op::With(o)) => apply_with(q, o, cx),
        (Stmt::Cte(q), Op::Cte(o)) => apply_cte(q, o, cx),
        (Stmt::WithQuery(q), Op::Wq(o)) => apply_wq(q, o, cx),
        (Stmt::TableCreate(q), Op::Tc(o)) => apply_tc(q, o, cx),
        (Stmt::TableAlter(q), Op::Ta(o)) => apply_ta(q, o, cx),
        (Stmt::TableDrop(q), Op::Td(o)) => match o {
            TdOp::Table(t) => {
                q.table(mat_tableref(t, cx));
            }
            TdOp::IfExists => {
                q.if_exists();
            }
            TdOp::Restrict => {
                q.restrict();
            }
            TdOp::Cascade => {
                q.cascade();
            }
        },
        (Stmt::TableRename(q), Op::Tr(a, b)) => {
            let a = mat_tableref(a, cx);
            q.table(a, mat_tableref(b, cx));
        }
        (Stmt::TableTruncate(q), Op::Tt(a)) => {
            q.table(mat_tableref(a, cx));
        }
        (Stmt::ColumnDef(q), Op::Cd(o)) => apply_cd(q, o, cx),
        (Stmt::IndexCreate(q), Op::Ic(o)) => apply_ic(q, o, cx),
        (Stmt::IndexDrop(q), Op::Id(o)) => match o {
            IdOp::Name(s) => {
                q.name(s.clone());
            }
            IdOp::Table(t) => {
                q.table(mat_tableref(t, cx));
            }
            IdOp::IfExists => {
                q.if_exists();
            }
        },
        (Stmt::TableIndex(q), Op::Ti(o)) => match o {
            TiOp::Name(s) => {
                q.name(s.clone());
            }
            TiOp::Col(n, p, d) => {
                q.col(index_col(n, p, d, cx));
            }
        },
        (Stmt::FkCreate(q), Op::Fk(o)) => apply_fc(q, o, cx),
        (Stmt::TableFk(q), Op::Fk(o)) => apply_fk_common(q, o, cx),
        (st, Op::Pg(o)) => apply_pg(st, o, cx),
        (Stmt::FkDrop(q), Op::Fd(o)) => match o {
            FdOp::Name(s) => {
                q.name(s.clone());
            }
            FdOp::Table(t) => {
                q.table(mat_tableref(t, cx));
            }
        },
        (s, op) => panic!("HARNESS: op {} does not apply to {:?}", op.kind(), s.family()),
    }
    Ok(())
}
