//! Steps (what a trace file contains), swarm configuration, and the reference model:
//! per handle a lineage log closed under the value-operation rewriting rules.

use crate::observe::ObsSpec;
use crate::ops::*;
use crate::spec::*;
use crate::stmt::{Family, Log, Stmt};
use serde::{Deserialize, Serialize};
use std::collections::BTreeMap;
use std::rc::Rc;

#[derive(Clone, Copy, Debug, PartialEq, Eq, Serialize, Deserialize)]
pub enum ClearKind {
    ClearSelects,
    FromClear,
    ResetLimit,
    ResetOffset,
    ClearOrderBy,
}

impl ClearKind {
    pub fn clause(self) -> Clause {
        match self {
            ClearKind::ClearSelects => Clause::Selects,
            ClearKind::FromClear => Clause::From,
            ClearKind::ResetLimit => Clause::Limit,
            ClearKind::ResetOffset => Clause::Offset,
            ClearKind::ClearOrderBy => Clause::OrderBy,
        }
    }
    pub fn applies_to(self, f: Family) -> bool {
        match self {
            ClearKind::ClearOrderBy => matches!(
                f,
                Family::Select | Family::Update | Family::Delete | Family::Window
            ),
            _ => f == Family::Select,
        }
    }
}

#[derive(Clone, Debug, PartialEq, Serialize, Deserialize)]
pub enum Step {
    New { h: HandleId, fam: Family, ctor: Ctor },
    Op { h: HandleId, op: Op, refs: Vec<(HandleId, SubMode)> },
    Take { src: HandleId, new: HandleId },
    Clone { src: HandleId, new: HandleId },
    /// `dst.clone_from(&src)` on two live handles of one family
    CloneFrom { src: HandleId, dst: HandleId },
    Clear { h: HandleId, what: ClearKind },
    Drop { h: HandleId },
    Observe {
        h: HandleId,
        obs: ObsSpec,
        iden_panic_in: Option<u64>,
        /// (other handle, after how many seam calls) — observe `other` from inside this render
        nested: Option<(HandleId, u64)>,
    },
    ObserveEq { a: HandleId, b: HandleId, iden_panic_in: Option<u64> },
    ObserveDebug { h: HandleId, iden_panic_in: Option<u64> },
    Check,
}

impl Step {
    pub fn kind(&self) -> String {
        match self {
            Step::New { fam, .. } => format!("New.{}", fam.short()),
            Step::Op { op, refs, .. } => {
                if refs.is_empty() {
                    op.kind()
                } else {
                    format!("{}+ref", op.kind())
                }
            }
            Step::Take { .. } => "Take".into(),
            Step::Clone { .. } => "Clone".into(),
            Step::CloneFrom { .. } => "CloneFrom".into(),
            Step::Clear { what, .. } => format!("{:?}", what),
            Step::Drop { .. } => "Drop".into(),
            Step::Observe { iden_panic_in, nested, obs, .. } => {
                let mut s = String::from("Observe");
                if iden_panic_in.is_some() {
                    s.push_str("+idenfault");
                }
                if obs.writer_fail_in.is_some() {
                    s.push_str("+writerfault");
                }
                if nested.is_some() {
                    s.push_str("+nested");
                }
                s
            }
            Step::ObserveEq { .. } => "ObserveEq".into(),
            Step::ObserveDebug { .. } => "ObserveDebug".into(),
            Step::Check => "Check".into(),
        }
    }
    pub fn is_value_op(&self) -> bool {
        matches!(self, Step::Take { .. } | Step::Clone { .. } | Step::CloneFrom { .. } | Step::Clear { .. })
            || matches!(self, Step::Op { refs, .. } if !refs.is_empty())
    }
}

#[derive(Clone, Copy, Debug, PartialEq, Eq, Serialize, Deserialize)]
pub enum Prop {
    C10,
    C15,
}

/// swarm configuration of one run (drawn from the run's PRNG first; stored in the trace)
#[derive(Clone, Debug, PartialEq, Serialize, Deserialize)]
pub struct Cfg {
    pub prop: Prop,
    pub families: Vec<Family>,
    pub max_handles: usize,
    pub n_steps: usize,
    pub value_op_pct: u32,
    pub observe_pct: u32,
    pub fault_pct: u32,
    pub handle_sub_pct: u32,
    pub nested_pct: u32,
    pub allow_nan: bool,
    pub adversarial_insert: bool,
    pub mismatch_pct: u32,
    pub expr_depth: u32,
    /// swarm over operation kinds: a builder op whose kind hashes to a cleared bit is redrawn, so
    /// each run concentrates on a subset of the vocabulary (more repeats and rare adjacent pairs)
    #[serde(default = "all_ones")]
    pub op_mask: u64,
}

fn all_ones() -> u64 {
    u64::MAX
}

pub struct MH {
    pub fam: Family,
    pub log: Log,
    /// left behind by take() on a non-query family: valid but unspecified
    pub residue: bool,
    pub rel: Vec<HandleId>,
    pub exp: Option<Rc<Vec<String>>>,
    pub rep: Option<Stmt>,
    pub nan: Option<bool>,
    /// rough size (operations, including those of composed handles): keeps self- and mutual
    /// composition from growing statements exponentially
    pub weight: u64,
}

pub const MAX_WEIGHT: u64 = 3000;

impl MH {
    pub fn new(fam: Family, log: Log) -> MH {
        MH {
            fam,
            log,
            residue: false,
            rel: Vec::new(),
            exp: None,
            rep: None,
            nan: None,
            weight: 1,
        }
    }
    pub fn touch(&mut self) {
        self.exp = None;
        self.rep = None;
        self.nan = None;
    }
}

pub type Model = BTreeMap<HandleId, MH>;

fn json_has_nan(v: &serde_json::Value) -> bool {
    match v {
        serde_json::Value::Object(m) => {
            if m.len() == 1 {
                if let Some(x) = m.get("Float") {
                    if let Some(b) = x.as_u64() {
                        if f32::from_bits(b as u32).is_nan() {
                            return true;
                        }
                    }
                }
                if let Some(x) = m.get("Double") {
                    if let Some(b) = x.as_u64() {
                        if f64::from_bits(b).is_nan() {
                            return true;
                        }
                    }
                }
            }
            m.values().any(json_has_nan)
        }
        serde_json::Value::Array(a) => a.iter().any(json_has_nan),
        _ => false,
    }
}

pub fn log_has_nan(log: &Log) -> bool {
    json_has_nan(&serde_json::to_value(log).expect("HARNESS: log to json"))
}

fn resolve_json(v: &mut serde_json::Value, model: &Model, self_log: Option<(HandleId, &Log)>) {
    match v {
        serde_json::Value::Object(m) => {
            if m.len() == 1 && m.contains_key("Handle") {
                let h = m["Handle"]["h"].as_u64().expect("HARNESS: handle id") as HandleId;
                let log = match self_log {
                    Some((sh, l)) if sh == h => l.clone(),
                    _ => model.get(&h).expect("HARNESS: resolve dead handle").log.clone(),
                };
                let mut inner = serde_json::to_value(&log).unwrap();
                // logs of handles only ever contain resolved (inline) subs
                resolve_json(&mut inner, model, None);
                m.clear();
                m.insert("Inline".to_string(), inner);
                return;
            }
            for (_, x) in m.iter_mut() {
                resolve_json(x, model, self_log);
            }
        }
        serde_json::Value::Array(a) => {
            for x in a.iter_mut() {
                resolve_json(x, model, self_log);
            }
        }
        _ => {}
    }
}

/// replace every `Sub::Handle` in `op` by `Sub::Inline(<that handle's current lineage log>)`
pub fn resolve_op(op: &Op, model: &Model) -> Op {
    let mut v = serde_json::to_value(op).expect("HARNESS: op to json");
    resolve_json(&mut v, model, None);
    serde_json::from_value(v).expect("HARNESS: resolved op from json")
}

pub fn resolve_ctor(c: &Ctor, model: &Model) -> Ctor {
    let mut v = serde_json::to_value(c).expect("HARNESS: ctor to json");
    resolve_json(&mut v, model, None);
    serde_json::from_value(v).expect("HARNESS: resolved ctor from json")
}

fn collect_refs(v: &serde_json::Value, out: &mut Vec<(HandleId, SubMode)>) {
    match v {
        serde_json::Value::Object(m) => {
            if m.len() == 1 && m.contains_key("Handle") {
                let h = m["Handle"]["h"].as_u64().unwrap() as HandleId;
                let mode: SubMode = serde_json::from_value(m["Handle"]["mode"].clone()).unwrap();
                out.push((h, mode));
                return;
            }
            for x in m.values() {
                collect_refs(x, out);
            }
        }
        serde_json::Value::Array(a) => {
            for x in a {
                collect_refs(x, out);
            }
        }
        _ => {}
    }
}

pub fn json_refs(v: &serde_json::Value) -> Vec<(HandleId, SubMode)> {
    let mut out = Vec::new();
    collect_refs(v, &mut out);
    out
}

pub fn op_refs(op: &Op) -> Vec<(HandleId, SubMode)> {
    let mut out = Vec::new();
    collect_refs(&serde_json::to_value(op).unwrap(), &mut out);
    out
}

// ------------------------------------------------------------------------------------------
// INSERT reference model (C10)

#[derive(Clone, Debug, PartialEq)]
pub enum InsSrc {
    None,
    Rows(Vec<Vec<ExprSpec>>),
    Select(Log),
}

#[derive(Clone, Debug, PartialEq)]
pub struct InsModel {
    pub cols: Vec<IdenSpec>,
    pub source: InsSrc,
    pub default: Option<u32>,
}

/// number of entries in the select list of a real SELECT, as the tree under test holds it
/// (measured through the public `exprs_mut_for_each`; what `column()` / `exprs()` / tuples mean
/// for that list is SELECT's business, not the INSERT contract's)
pub fn measured_width(q: &sea_query::SelectStatement) -> usize {
    let mut n = 0usize;
    let mut c = q.clone();
    c.exprs_mut_for_each(|_| n += 1);
    n
}

pub fn measured_width_of_log(log: &Log) -> usize {
    match crate::stmt::replay(log) {
        Stmt::Select(q) => measured_width(&q),
        _ => 0,
    }
}

/// number of entries in the select list of a SELECT lineage log, by counting operations
/// (used for workload generation only)
pub fn select_width(log: &Log) -> usize {
    let mut n = 0;
    for op in &log.ops {
        if let Op::Sel(s) = op {
            n += match s {
                SelOp::Column(_)
                | SelOp::Expr(_)
                | SelOp::ExprAs(..)
                | SelOp::ExprWindow(..)
                | SelOp::ExprWindowAs(..)
                | SelOp::ExprWindowName(..)
                | SelOp::ExprWindowNameAs(..) => 1,
                SelOp::Columns(c, _) => c.len(),
                SelOp::Exprs(e, _) => e.len(),
                _ => 0,
            };
        }
    }
    n
}

pub fn ins_model(log: &Log) -> InsModel {
    let mut m = InsModel {
        cols: Vec::new(),
        source: InsSrc::None,
        default: None,
    };
    let push = |m: &mut InsModel, row: &Vec<ExprSpec>| {
        if row.is_empty() {
            return;
        }
        if let InsSrc::Rows(rows) = &mut m.source {
            rows.push(row.clone());
        } else {
            m.source = InsSrc::Rows(vec![row.clone()]);
        }
    };
    for op in &log.ops {
        if let Op::Ins(i) = op {
            match i {
                InsOp::Columns(c, _) => m.cols = c.clone(),
                InsOp::Values(r, _) | InsOp::ValuesPanic(r, _) => push(&mut m, r),
                InsOp::ValuesFromPanic(rows, _) => {
                    for (r, _) in rows {
                        push(&mut m, r);
                    }
                }
                InsOp::SelectFrom(Sub::Inline(l)) => m.source = InsSrc::Select((**l).clone()),
                InsOp::SelectFrom(_) => panic!("HARNESS: unresolved select_from in log"),
                InsOp::OrDefaultValues => m.default = Some(1),
                InsOp::OrDefaultValuesMany(n) => m.default = Some(*n),
                _ => {}
            }
        }
    }
    m
}

impl InsModel {
    /// does the model itself predict a non-rectangular statement? (only reachable by
    /// re-declaring columns after a source was accepted — the recorded known finding)
    pub fn ragged(&self) -> bool {
        match &self.source {
            InsSrc::None => false,
            InsSrc::Rows(rows) => rows.iter().any(|r| r.len() != self.cols.len()),
            InsSrc::Select(l) => measured_width_of_log(l) != self.cols.len(),
        }
    }
}
