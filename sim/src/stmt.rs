//! Families of builder values, the real-value enum `Stmt`, lineage logs and the materialisation
//! context (`Ctx`) that distinguishes the live run (shared identifiers, live seams, handle
//! references into the arena) from the oracle's lineage replay (fresh, plain, fault-free).

use crate::ops::{apply_op, Ctor, Op};
use crate::seams::{IterB, SimIden, SimIter};
use crate::spec::*;
use sea_query::*;
use serde::{Deserialize, Serialize};
use std::cell::RefCell;

#[derive(Clone, Copy, Debug, PartialEq, Eq, PartialOrd, Ord, Hash, Serialize, Deserialize)]
pub enum Family {
    Select,
    Window,
    Update,
    Delete,
    Insert,
    OnConflict,
    WithClause,
    Cte,
    WithQuery,
    TableCreate,
    TableAlter,
    TableDrop,
    TableRename,
    TableTruncate,
    ColumnDef,
    IndexCreate,
    IndexDrop,
    TableIndex,
    FkCreate,
    FkDrop,
    TableFk,
    TypeCreate,
    TypeDrop,
    TypeAlter,
    ExtCreate,
    ExtDrop,
}

pub const ALL_FAMILIES: &[Family] = &[
    Family::Select,
    Family::Window,
    Family::Update,
    Family::Delete,
    Family::Insert,
    Family::OnConflict,
    Family::WithClause,
    Family::Cte,
    Family::WithQuery,
    Family::TableCreate,
    Family::TableAlter,
    Family::TableDrop,
    Family::TableRename,
    Family::TableTruncate,
    Family::ColumnDef,
    Family::IndexCreate,
    Family::IndexDrop,
    Family::TableIndex,
    Family::FkCreate,
    Family::FkDrop,
    Family::TableFk,
    Family::TypeCreate,
    Family::TypeDrop,
    Family::TypeAlter,
    Family::ExtCreate,
    Family::ExtDrop,
];

impl Family {
    pub fn has_take(self) -> bool {
        matches!(
            self,
            Family::Select
                | Family::Window
                | Family::TableCreate
                | Family::TableAlter
                | Family::TableDrop
                | Family::TableRename
                | Family::TableTruncate
                | Family::ColumnDef
                | Family::IndexCreate
                | Family::TableIndex
                | Family::FkCreate
                | Family::TableFk
        )
    }
    /// "for query statements [take] leaves behind a statement equal to a newly constructed one"
    pub fn take_leaves_fresh(self) -> bool {
        matches!(self, Family::Select)
    }
    pub fn has_eq(self) -> bool {
        matches!(
            self,
            Family::Select
                | Family::Window
                | Family::Update
                | Family::Delete
                | Family::Insert
                | Family::OnConflict
                | Family::WithClause
                | Family::Cte
                | Family::WithQuery
                | Family::ExtCreate
                | Family::ExtDrop
        )
    }
    pub fn is_query(self) -> bool {
        matches!(
            self,
            Family::Select | Family::Update | Family::Delete | Family::Insert | Family::WithQuery
        )
    }
    pub fn short(self) -> &'static str {
        match self {
            Family::Select => "sel",
            Family::Window => "win",
            Family::Update => "upd",
            Family::Delete => "del",
            Family::Insert => "ins",
            Family::OnConflict => "oc",
            Family::WithClause => "with",
            Family::Cte => "cte",
            Family::WithQuery => "wq",
            Family::TableCreate => "tc",
            Family::TableAlter => "ta",
            Family::TableDrop => "td",
            Family::TableRename => "tr",
            Family::TableTruncate => "tt",
            Family::ColumnDef => "cd",
            Family::IndexCreate => "ic",
            Family::IndexDrop => "id",
            Family::TableIndex => "ti",
            Family::FkCreate => "fc",
            Family::FkDrop => "fd",
            Family::TableFk => "tfk",
            Family::TypeCreate => "tyc",
            Family::TypeDrop => "tyd",
            Family::TypeAlter => "tya",
            Family::ExtCreate => "exc",
            Family::ExtDrop => "exd",
        }
    }
}

#[derive(Clone, Debug)]
pub enum Stmt {
    Select(SelectStatement),
    Window(WindowStatement),
    Update(UpdateStatement),
    Delete(DeleteStatement),
    Insert(InsertStatement),
    OnConflict(OnConflict),
    WithClause(WithClause),
    Cte(CommonTableExpression),
    WithQuery(WithQuery),
    TableCreate(TableCreateStatement),
    TableAlter(TableAlterStatement),
    TableDrop(TableDropStatement),
    TableRename(TableRenameStatement),
    TableTruncate(TableTruncateStatement),
    ColumnDef(ColumnDef),
    IndexCreate(IndexCreateStatement),
    IndexDrop(IndexDropStatement),
    TableIndex(TableIndex),
    FkCreate(ForeignKeyCreateStatement),
    FkDrop(ForeignKeyDropStatement),
    TableFk(TableForeignKey),
    TypeCreate(sea_query::extension::postgres::TypeCreateStatement),
    TypeDrop(sea_query::extension::postgres::TypeDropStatement),
    TypeAlter(sea_query::extension::postgres::TypeAlterStatement),
    ExtCreate(sea_query::extension::postgres::ExtensionCreateStatement),
    ExtDrop(sea_query::extension::postgres::ExtensionDropStatement),
}

macro_rules! each_stmt {
    ($s:expr, $x:ident => $e:expr) => {
        match $s {
            Stmt::Select($x) => $e,
            Stmt::Window($x) => $e,
            Stmt::Update($x) => $e,
            Stmt::Delete($x) => $e,
            Stmt::Insert($x) => $e,
            Stmt::OnConflict($x) => $e,
            Stmt::WithClause($x) => $e,
            Stmt::Cte($x) => $e,
            Stmt::WithQuery($x) => $e,
            Stmt::TableCreate($x) => $e,
            Stmt::TableAlter($x) => $e,
            Stmt::TableDrop($x) => $e,
            Stmt::TableRename($x) => $e,
            Stmt::TableTruncate($x) => $e,
            Stmt::ColumnDef($x) => $e,
            Stmt::IndexCreate($x) => $e,
            Stmt::IndexDrop($x) => $e,
            Stmt::TableIndex($x) => $e,
            Stmt::FkCreate($x) => $e,
            Stmt::FkDrop($x) => $e,
            Stmt::TableFk($x) => $e,
            Stmt::TypeCreate($x) => $e,
            Stmt::TypeDrop($x) => $e,
            Stmt::TypeAlter($x) => $e,
            Stmt::ExtCreate($x) => $e,
            Stmt::ExtDrop($x) => $e,
        }
    };
}

impl Stmt {
    pub fn family(&self) -> Family {
        match self {
            Stmt::Select(_) => Family::Select,
            Stmt::Window(_) => Family::Window,
            Stmt::Update(_) => Family::Update,
            Stmt::Delete(_) => Family::Delete,
            Stmt::Insert(_) => Family::Insert,
            Stmt::OnConflict(_) => Family::OnConflict,
            Stmt::WithClause(_) => Family::WithClause,
            Stmt::Cte(_) => Family::Cte,
            Stmt::WithQuery(_) => Family::WithQuery,
            Stmt::TableCreate(_) => Family::TableCreate,
            Stmt::TableAlter(_) => Family::TableAlter,
            Stmt::TableDrop(_) => Family::TableDrop,
            Stmt::TableRename(_) => Family::TableRename,
            Stmt::TableTruncate(_) => Family::TableTruncate,
            Stmt::ColumnDef(_) => Family::ColumnDef,
            Stmt::IndexCreate(_) => Family::IndexCreate,
            Stmt::IndexDrop(_) => Family::IndexDrop,
            Stmt::TableIndex(_) => Family::TableIndex,
            Stmt::FkCreate(_) => Family::FkCreate,
            Stmt::FkDrop(_) => Family::FkDrop,
            Stmt::TableFk(_) => Family::TableFk,
            Stmt::TypeCreate(_) => Family::TypeCreate,
            Stmt::TypeDrop(_) => Family::TypeDrop,
            Stmt::TypeAlter(_) => Family::TypeAlter,
            Stmt::ExtCreate(_) => Family::ExtCreate,
            Stmt::ExtDrop(_) => Family::ExtDrop,
        }
    }

    /// the family's own `take()`
    pub fn take_value(&mut self) -> Option<Stmt> {
        Some(match self {
            Stmt::Select(x) => Stmt::Select(x.take()),
            Stmt::Window(x) => Stmt::Window(x.take()),
            Stmt::TableCreate(x) => Stmt::TableCreate(x.take()),
            Stmt::TableAlter(x) => Stmt::TableAlter(x.take()),
            Stmt::TableDrop(x) => Stmt::TableDrop(x.take()),
            Stmt::TableRename(x) => Stmt::TableRename(x.take()),
            Stmt::TableTruncate(x) => Stmt::TableTruncate(x.take()),
            Stmt::ColumnDef(x) => Stmt::ColumnDef(x.take()),
            Stmt::IndexCreate(x) => Stmt::IndexCreate(x.take()),
            Stmt::TableIndex(x) => Stmt::TableIndex(x.take()),
            Stmt::FkCreate(x) => Stmt::FkCreate(x.take()),
            Stmt::TableFk(x) => Stmt::TableFk(x.take()),
            _ => return None,
        })
    }

    /// the family's own `PartialEq`, where it has one
    pub fn eq_value(&self, other: &Stmt) -> Option<bool> {
        Some(match (self, other) {
            (Stmt::Select(a), Stmt::Select(b)) => a == b,
            (Stmt::Window(a), Stmt::Window(b)) => a == b,
            (Stmt::Update(a), Stmt::Update(b)) => a == b,
            (Stmt::Delete(a), Stmt::Delete(b)) => a == b,
            (Stmt::Insert(a), Stmt::Insert(b)) => a == b,
            (Stmt::OnConflict(a), Stmt::OnConflict(b)) => a == b,
            (Stmt::WithClause(a), Stmt::WithClause(b)) => a == b,
            (Stmt::Cte(a), Stmt::Cte(b)) => a == b,
            (Stmt::WithQuery(a), Stmt::WithQuery(b)) => a == b,
            (Stmt::ExtCreate(a), Stmt::ExtCreate(b)) => a == b,
            (Stmt::ExtDrop(a), Stmt::ExtDrop(b)) => a == b,
            _ => return None,
        })
    }

    /// `Clone::clone_from` of the family (what `a.clone_from(&b)` calls)
    pub fn clone_from_value(&mut self, other: &Stmt) {
        match (self, other) {
            (Stmt::Select(a), Stmt::Select(b)) => a.clone_from(b),
            (Stmt::Window(a), Stmt::Window(b)) => a.clone_from(b),
            (Stmt::Update(a), Stmt::Update(b)) => a.clone_from(b),
            (Stmt::Delete(a), Stmt::Delete(b)) => a.clone_from(b),
            (Stmt::Insert(a), Stmt::Insert(b)) => a.clone_from(b),
            (Stmt::OnConflict(a), Stmt::OnConflict(b)) => a.clone_from(b),
            (Stmt::WithClause(a), Stmt::WithClause(b)) => a.clone_from(b),
            (Stmt::Cte(a), Stmt::Cte(b)) => a.clone_from(b),
            (Stmt::WithQuery(a), Stmt::WithQuery(b)) => a.clone_from(b),
            (Stmt::TableCreate(a), Stmt::TableCreate(b)) => a.clone_from(b),
            (Stmt::TableAlter(a), Stmt::TableAlter(b)) => a.clone_from(b),
            (Stmt::TableDrop(a), Stmt::TableDrop(b)) => a.clone_from(b),
            (Stmt::TableRename(a), Stmt::TableRename(b)) => a.clone_from(b),
            (Stmt::TableTruncate(a), Stmt::TableTruncate(b)) => a.clone_from(b),
            (Stmt::ColumnDef(a), Stmt::ColumnDef(b)) => a.clone_from(b),
            (Stmt::IndexCreate(a), Stmt::IndexCreate(b)) => a.clone_from(b),
            (Stmt::IndexDrop(a), Stmt::IndexDrop(b)) => a.clone_from(b),
            (Stmt::TableIndex(a), Stmt::TableIndex(b)) => a.clone_from(b),
            (Stmt::FkCreate(a), Stmt::FkCreate(b)) => a.clone_from(b),
            (Stmt::FkDrop(a), Stmt::FkDrop(b)) => a.clone_from(b),
            (Stmt::TableFk(a), Stmt::TableFk(b)) => a.clone_from(b),
            (Stmt::TypeCreate(a), Stmt::TypeCreate(b)) => a.clone_from(b),
            (Stmt::TypeDrop(a), Stmt::TypeDrop(b)) => a.clone_from(b),
            (Stmt::TypeAlter(a), Stmt::TypeAlter(b)) => a.clone_from(b),
            (Stmt::ExtCreate(a), Stmt::ExtCreate(b)) => a.clone_from(b),
            (Stmt::ExtDrop(a), Stmt::ExtDrop(b)) => a.clone_from(b),
            (a, b) => panic!("HARNESS: clone_from across families {:?} {:?}", a.family(), b.family()),
        }
    }

    pub fn debug(&self) -> String {
        each_stmt!(self, x => format!("{:?}", x))
    }

    pub fn fresh(fam: Family) -> Stmt {
        match fam {
            Family::Select => Stmt::Select(SelectStatement::new()),
            Family::Window => Stmt::Window(WindowStatement::new()),
            Family::Update => Stmt::Update(UpdateStatement::new()),
            Family::Delete => Stmt::Delete(DeleteStatement::new()),
            Family::Insert => Stmt::Insert(InsertStatement::new()),
            Family::OnConflict => Stmt::OnConflict(OnConflict::new()),
            Family::WithClause => Stmt::WithClause(WithClause::new()),
            Family::Cte => Stmt::Cte(CommonTableExpression::new()),
            Family::WithQuery => Stmt::WithQuery(WithQuery::new()),
            Family::TableCreate => Stmt::TableCreate(TableCreateStatement::new()),
            Family::TableAlter => Stmt::TableAlter(TableAlterStatement::new()),
            Family::TableDrop => Stmt::TableDrop(TableDropStatement::new()),
            Family::TableRename => Stmt::TableRename(TableRenameStatement::new()),
            Family::TableTruncate => Stmt::TableTruncate(TableTruncateStatement::new()),
            Family::ColumnDef => Stmt::ColumnDef(ColumnDef::new(SimIden {
                name: "col".into(),
                live: false,
            })),
            Family::IndexCreate => Stmt::IndexCreate(IndexCreateStatement::new()),
            Family::IndexDrop => Stmt::IndexDrop(IndexDropStatement::new()),
            Family::TableIndex => Stmt::TableIndex(TableIndex::new()),
            Family::FkCreate => Stmt::FkCreate(ForeignKeyCreateStatement::new()),
            Family::FkDrop => Stmt::FkDrop(ForeignKeyDropStatement::new()),
            Family::TableFk => Stmt::TableFk(TableForeignKey::new()),
            Family::TypeCreate => Stmt::TypeCreate(sea_query::extension::postgres::Type::create()),
            Family::TypeDrop => Stmt::TypeDrop(sea_query::extension::postgres::Type::drop()),
            Family::TypeAlter => Stmt::TypeAlter(sea_query::extension::postgres::Type::alter()),
            Family::ExtCreate => Stmt::ExtCreate(sea_query::extension::postgres::Extension::create()),
            Family::ExtDrop => Stmt::ExtDrop(sea_query::extension::postgres::Extension::drop()),
        }
    }
}

macro_rules! stmt_accessors {
    ($( $fn_name:ident, $fn_mut:ident, $variant:ident, $ty:ty );* $(;)?) => {
        impl Stmt {
            $(
                pub fn $fn_name(self) -> $ty {
                    match self { Stmt::$variant(x) => x, other => panic!("HARNESS: expected {} got {:?}", stringify!($variant), other.family()) }
                }
                pub fn $fn_mut(&mut self) -> &mut $ty {
                    match self { Stmt::$variant(x) => x, other => panic!("HARNESS: expected {} got {:?}", stringify!($variant), other.family()) }
                }
            )*
        }
    };
}

stmt_accessors! {
    into_select, as_select, Select, SelectStatement;
    into_window, as_window, Window, WindowStatement;
    into_update, as_update, Update, UpdateStatement;
    into_delete, as_delete, Delete, DeleteStatement;
    into_insert, as_insert, Insert, InsertStatement;
    into_on_conflict, as_on_conflict, OnConflict, OnConflict;
    into_with_clause, as_with_clause, WithClause, WithClause;
    into_cte, as_cte, Cte, CommonTableExpression;
    into_with_query, as_with_query, WithQuery, WithQuery;
    into_table_create, as_table_create, TableCreate, TableCreateStatement;
    into_table_alter, as_table_alter, TableAlter, TableAlterStatement;
    into_table_drop, as_table_drop, TableDrop, TableDropStatement;
    into_table_rename, as_table_rename, TableRename, TableRenameStatement;
    into_table_truncate, as_table_truncate, TableTruncate, TableTruncateStatement;
    into_column_def, as_column_def, ColumnDef, ColumnDef;
    into_index_create, as_index_create, IndexCreate, IndexCreateStatement;
    into_index_drop, as_index_drop, IndexDrop, IndexDropStatement;
    into_table_index, as_table_index, TableIndex, TableIndex;
    into_fk_create, as_fk_create, FkCreate, ForeignKeyCreateStatement;
    into_fk_drop, as_fk_drop, FkDrop, ForeignKeyDropStatement;
    into_table_fk, as_table_fk, TableFk, TableForeignKey;
}

// ------------------------------------------------------------------------------------------

/// Lineage log: the executable reference model of one handle.
#[derive(Clone, Debug, PartialEq, Serialize, Deserialize)]
pub struct Log {
    pub fam: Family,
    pub ctor: Ctor,
    pub ops: Vec<Op>,
}

impl Log {
    pub fn new(fam: Family) -> Log {
        Log {
            fam,
            ctor: Ctor::Default,
            ops: Vec::new(),
        }
    }
}

/// Build a statement from its lineage log in the given context.
pub fn build_log(log: &Log, cx: &mut Ctx) -> Stmt {
    let mut s = crate::ops::construct(log.fam, &log.ctor, cx);
    for op in &log.ops {
        let r = apply_op(&mut s, op, cx);
        if let Err(e) = r {
            // an INSERT row / select source that the tree rejects although the generator meant it
            // to fit (e.g. the tree counts a select list differently): the call simply did not
            // take effect — identically in the live build and in the replay
            if matches!(op, Op::Ins(_)) {
                continue;
            }
            panic!("HARNESS: logged op failed on replay: {} ({:?})", e, op);
        }
    }
    s
}

/// Oracle: fresh plain identifiers, honest iterators, no faults, no handle references.
pub fn replay(log: &Log) -> Stmt {
    let mut cx = Ctx::oracle();
    build_log(log, &mut cx)
}

// ------------------------------------------------------------------------------------------

pub struct IdenPool {
    pub slots: Vec<Option<DynIden>>,
    pub shared_hits: u64,
}

impl IdenPool {
    pub fn new() -> Self {
        IdenPool {
            slots: (0..2 * NAMES.len()).map(|_| None).collect(),
            shared_hits: 0,
        }
    }
}

impl Default for IdenPool {
    fn default() -> Self {
        Self::new()
    }
}

pub struct Arena {
    pub slots: Vec<Option<Stmt>>,
}

impl Arena {
    pub fn new() -> Self {
        Arena { slots: Vec::new() }
    }
    pub fn get(&self, h: HandleId) -> Option<&Stmt> {
        self.slots.get(h as usize).and_then(|x| x.as_ref())
    }
    pub fn get_mut(&mut self, h: HandleId) -> Option<&mut Stmt> {
        self.slots.get_mut(h as usize).and_then(|x| x.as_mut())
    }
    pub fn put(&mut self, h: HandleId, s: Stmt) {
        let i = h as usize;
        if self.slots.len() <= i {
            self.slots.resize_with(i + 1, || None);
        }
        self.slots[i] = Some(s);
    }
    pub fn remove(&mut self, h: HandleId) -> Option<Stmt> {
        self.slots.get_mut(h as usize).and_then(|x| x.take())
    }
}

impl Default for Arena {
    fn default() -> Self {
        Self::new()
    }
}

pub struct Ctx<'a> {
    pub live: bool,
    pub pool: Option<&'a RefCell<IdenPool>>,
    pub arena: Option<&'a RefCell<Arena>>,
    pub target: Option<HandleId>,
    pub self_clone: Option<Stmt>,
}

impl Ctx<'static> {
    pub fn oracle() -> Ctx<'static> {
        Ctx {
            live: false,
            pool: None,
            arena: None,
            target: None,
            self_clone: None,
        }
    }
}

impl<'a> Ctx<'a> {
    pub fn iden(&mut self, s: &IdenSpec) -> DynIden {
        let make = |s: &IdenSpec, live: bool| -> DynIden {
            if s.alias {
                SeaRc::new(Alias::new(s.n.clone()))
            } else {
                SeaRc::new(SimIden {
                    name: s.n.clone(),
                    live,
                })
            }
        };
        if let (Some(pool), Some(k)) = (self.pool, s.slot) {
            let mut p = pool.borrow_mut();
            let half = p.slots.len() / 2;
            let k = k as usize % half + if s.alias { half } else { 0 };
            if let Some(d) = &p.slots[k] {
                let d = d.clone();
                p.shared_hits += 1;
                return d;
            }
            let d = make(s, self.live);
            p.slots[k] = Some(d.clone());
            return d;
        }
        make(s, self.live)
    }

    pub fn iter<T>(&mut self, v: Vec<T>, b: IterB) -> SimIter<T> {
        if self.live {
            SimIter::new(v, b, true)
        } else {
            SimIter::new(v, IterB::Honest, false)
        }
    }

    /// a sub-statement argument passed by value
    pub fn sub_owned(&mut self, s: &Sub) -> Stmt {
        match s {
            Sub::Inline(log) => build_log(log, self),
            Sub::Handle { h, mode } => {
                if Some(*h) == self.target {
                    return self
                        .self_clone
                        .clone()
                        .expect("HARNESS: self reference without pre-clone");
                }
                let arena = self.arena.expect("HARNESS: handle reference in oracle context");
                let mut a = arena.borrow_mut();
                match mode {
                    SubMode::Clone => a.get(*h).expect("HARNESS: dead handle").clone(),
                    SubMode::Take => a
                        .get_mut(*h)
                        .expect("HARNESS: dead handle")
                        .take_value()
                        .expect("HARNESS: take on family without take"),
                    SubMode::Move => a.remove(*h).expect("HARNESS: dead handle"),
                }
            }
        }
    }

    pub fn sub_select(&mut self, s: &Sub) -> SelectStatement {
        self.sub_owned(s).into_select()
    }

    /// a sub-statement argument passed as `&mut` (sea-query calls `take()` on it itself)
    pub fn sub_with_mut<R>(&mut self, s: &Sub, f: impl FnOnce(&mut Stmt) -> R) -> R {
        match s {
            Sub::Inline(log) => {
                let mut tmp = build_log(log, self);
                f(&mut tmp)
            }
            Sub::Handle { h, .. } => {
                let arena = self.arena.expect("HARNESS: handle reference in oracle context");
                let mut st = arena.borrow_mut().remove(*h).expect("HARNESS: dead handle");
                let r = f(&mut st);
                arena.borrow_mut().put(*h, st);
                r
            }
        }
    }

    /// a sub-statement argument passed as `&`
    pub fn sub_with_ref<R>(&mut self, s: &Sub, f: impl FnOnce(&Stmt) -> R) -> R {
        self.sub_with_mut(s, |x| f(x))
    }
}
