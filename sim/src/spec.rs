//! Plain-data argument specifications (what replay files contain), their seeded generators and
//! their materialisation into real sea-query values.

use crate::rng::Rng;
use crate::seams::IterB;
use crate::stmt::{Ctx, Family, Log};
use sea_query::*;
use serde::{Deserialize, Serialize};

pub type HandleId = u32;

// ------------------------------------------------------------------------------------------
// identifiers

pub const NAMES: &[&str] = &[
    "id", "name", "glyph", "font", "aspect", "image", "size_w", "character", "a", "b", "t1", "t2",
    "we\"ird", "back`tick", "", "naïve", "sp ace", "semi;colon", "quo'te", "[br]", "x\\y", "SELECT",
];

#[derive(Clone, Debug, PartialEq, Serialize, Deserialize)]
pub struct IdenSpec {
    pub n: String,
    /// Some(k): use the run's shared `DynIden` number k (aliasing across ops and handles)
    pub slot: Option<u8>,
    /// use sea-query's own `Alias` identifier type instead of the simulator's `SimIden`
    #[serde(default)]
    pub alias: bool,
}

pub fn gen_iden(r: &mut Rng) -> IdenSpec {
    let k = if r.name_pool > 0 && r.pct(85) {
        r.below(r.name_pool as usize)
    } else if r.pct(80) {
        r.below(12)
    } else {
        r.below(NAMES.len())
    };
    IdenSpec {
        n: NAMES[k].to_string(),
        slot: if r.pct(40) { Some(k as u8) } else { None },
        alias: r.pct(25),
    }
}

pub fn gen_idens(r: &mut Rng, lo: usize, hi: usize) -> Vec<IdenSpec> {
    (0..r.range(lo, hi)).map(|_| gen_iden(r)).collect()
}

// ------------------------------------------------------------------------------------------
// values

#[derive(Clone, Debug, PartialEq, Serialize, Deserialize)]
pub enum ValSpec {
    Bool(Option<bool>),
    TinyInt(Option<i8>),
    SmallInt(Option<i16>),
    Int(Option<i32>),
    BigInt(Option<i64>),
    TinyUnsigned(Option<u8>),
    SmallUnsigned(Option<u16>),
    Unsigned(Option<u32>),
    BigUnsigned(Option<u64>),
    /// bit pattern (keeps NaN exact in JSON)
    Float(Option<u32>),
    Double(Option<u64>),
    Str(Option<String>),
    Char(Option<char>),
    Bytes(Option<Vec<u8>>),
    /// value-type features (only generated and only typed in `ts` builds; plain strings otherwise)
    Json(Option<String>),
    Uuid(Option<(u64, u64)>),
    ChronoDateTime(Option<i64>),
    Decimal(Option<(i64, u32)>),
    Array(Option<Vec<i32>>),
}

pub const STRINGS: &[&str] = &[
    "", "abc", "12A", "it's", "back\\slash", "dq\"", "new\nline", "%like_", "ünï", "a?b", "$1",
    "NULL", "0%", "tab\t", "semi;",
];

impl ValSpec {
    pub fn is_nan(&self) -> bool {
        match self {
            ValSpec::Float(Some(b)) => f32::from_bits(*b).is_nan(),
            ValSpec::Double(Some(b)) => f64::from_bits(*b).is_nan(),
            _ => false,
        }
    }
    pub fn to_value(&self) -> Value {
        match self {
            ValSpec::Bool(v) => Value::Bool(*v),
            ValSpec::TinyInt(v) => Value::TinyInt(*v),
            ValSpec::SmallInt(v) => Value::SmallInt(*v),
            ValSpec::Int(v) => Value::Int(*v),
            ValSpec::BigInt(v) => Value::BigInt(*v),
            ValSpec::TinyUnsigned(v) => Value::TinyUnsigned(*v),
            ValSpec::SmallUnsigned(v) => Value::SmallUnsigned(*v),
            ValSpec::Unsigned(v) => Value::Unsigned(*v),
            ValSpec::BigUnsigned(v) => Value::BigUnsigned(*v),
            ValSpec::Float(v) => Value::Float(v.map(f32::from_bits)),
            ValSpec::Double(v) => Value::Double(v.map(f64::from_bits)),
            ValSpec::Str(v) => Value::String(v.clone().map(Box::new)),
            ValSpec::Char(v) => Value::Char(*v),
            ValSpec::Bytes(v) => Value::Bytes(v.clone().map(Box::new)),
            #[cfg(feature = "ts")]
            ValSpec::Json(v) => Value::Json(v.as_ref().map(|s| Box::new(serde_json::from_str(s).unwrap_or(serde_json::Value::Null)))),
            #[cfg(feature = "ts")]
            ValSpec::Uuid(v) => Value::Uuid(v.map(|(a, b)| Box::new(uuid::Uuid::from_u64_pair(a, b)))),
            #[cfg(feature = "ts")]
            ValSpec::ChronoDateTime(v) => Value::ChronoDateTime(v.and_then(|t| {
                chrono::DateTime::<chrono::Utc>::from_timestamp(t, 0).map(|d| Box::new(d.naive_utc()))
            })),
            #[cfg(feature = "ts")]
            ValSpec::Decimal(v) => Value::Decimal(v.map(|(m, sc)| Box::new(rust_decimal::Decimal::new(m, sc % 20)))),
            #[cfg(feature = "ts")]
            ValSpec::Array(v) => Value::Array(
                sea_query::ArrayType::Int,
                v.as_ref().map(|xs| Box::new(xs.iter().map(|x| Value::Int(Some(*x))).collect())),
            ),
            #[cfg(not(feature = "ts"))]
            other => Value::String(Some(Box::new(format!("{:?}", other)))),
        }
    }
}

pub fn gen_val(r: &mut Rng, allow_nan: bool) -> ValSpec {
    let null = r.pct(8);
    #[cfg(feature = "ts")]
    if r.pct(15) {
        return match r.below(5) {
            0 => ValSpec::Json(if null { None } else { Some(r.pick(&["{\"a\":1}", "[1,\"x\"]", "null", "\"it's\""]).to_string()) }),
            1 => ValSpec::Uuid(if null { None } else { Some((r.next(), r.next())) }),
            2 => ValSpec::ChronoDateTime(if null { None } else { Some((r.below(2_000_000_000)) as i64) }),
            3 => ValSpec::Decimal(if null { None } else { Some(((r.below(1_000_000) as i64) - 500_000, r.below(6) as u32)) }),
            _ => ValSpec::Array(if null { None } else { Some((0..r.below(4)).map(|_| r.below(100) as i32).collect()) }),
        };
    }
    match r.below(16) {
        0 => ValSpec::Bool(if null { None } else { Some(r.coin()) }),
        1 => ValSpec::TinyInt(if null { None } else { Some(r.next() as i8) }),
        2 => ValSpec::SmallInt(if null { None } else { Some(r.next() as i16) }),
        3 | 4 | 5 => ValSpec::Int(if null { None } else { Some((r.below(2000) as i32) - 1000) }),
        6 => ValSpec::BigInt(if null { None } else { Some(r.next() as i64) }),
        7 => ValSpec::TinyUnsigned(if null { None } else { Some(r.next() as u8) }),
        8 => ValSpec::SmallUnsigned(if null { None } else { Some(r.next() as u16) }),
        9 => ValSpec::Unsigned(if null { None } else { Some(r.next() as u32) }),
        10 => ValSpec::BigUnsigned(if null { None } else { Some(r.next()) }),
        11 => ValSpec::Float(if null {
            None
        } else {
            Some(match r.below(6) {
                0 if allow_nan => f32::NAN.to_bits(),
                1 => f32::INFINITY.to_bits(),
                2 => (-0.0f32).to_bits(),
                _ => ((r.below(4000) as f32) / 8.0 - 100.0).to_bits(),
            })
        }),
        12 => ValSpec::Double(if null {
            None
        } else {
            Some(match r.below(6) {
                0 if allow_nan => f64::NAN.to_bits(),
                1 => f64::NEG_INFINITY.to_bits(),
                _ => ((r.below(100000) as f64) / 16.0 - 1000.0).to_bits(),
            })
        }),
        13 | 14 => ValSpec::Str(if null { None } else { Some(r.pick(STRINGS).to_string()) }),
        _ => {
            if r.coin() {
                ValSpec::Char(if null { None } else { Some(*r.pick(&['a', '\'', '"', 'é', '\\'])) })
            } else {
                ValSpec::Bytes(if null {
                    None
                } else {
                    Some((0..r.below(5)).map(|_| r.next() as u8).collect())
                })
            }
        }
    }
}

// ------------------------------------------------------------------------------------------
// sub-statements

#[derive(Clone, Copy, Debug, PartialEq, Eq, Serialize, Deserialize)]
pub enum SubMode {
    /// `h.clone()` is passed (or `&h` where the API takes a shared reference)
    Clone,
    /// `h.take()` is passed (or `&mut h` where sea-query calls `take()` itself)
    Take,
    /// the handle itself is moved in and ceases to exist
    Move,
}

#[derive(Clone, Debug, PartialEq, Serialize, Deserialize)]
pub enum Sub {
    Inline(Box<Log>),
    Handle { h: HandleId, mode: SubMode },
}

// ------------------------------------------------------------------------------------------
// column refs, table refs

#[derive(Clone, Debug, PartialEq, Serialize, Deserialize)]
pub enum ColRefSpec {
    Col(IdenSpec),
    TblCol(IdenSpec, IdenSpec),
    SchTblCol(IdenSpec, IdenSpec, IdenSpec),
    Asterisk,
    TblAsterisk(IdenSpec),
}

pub fn gen_colref(r: &mut Rng) -> ColRefSpec {
    match r.below(10) {
        0..=5 => ColRefSpec::Col(gen_iden(r)),
        6 | 7 => ColRefSpec::TblCol(gen_iden(r), gen_iden(r)),
        8 => ColRefSpec::SchTblCol(gen_iden(r), gen_iden(r), gen_iden(r)),
        _ => {
            if r.coin() {
                ColRefSpec::Asterisk
            } else {
                ColRefSpec::TblAsterisk(gen_iden(r))
            }
        }
    }
}

pub fn mat_colref(c: &ColRefSpec, cx: &mut Ctx) -> ColumnRef {
    match c {
        ColRefSpec::Col(a) => cx.iden(a).into_column_ref(),
        ColRefSpec::TblCol(a, b) => (cx.iden(a), cx.iden(b)).into_column_ref(),
        ColRefSpec::SchTblCol(a, b, c) => (cx.iden(a), cx.iden(b), cx.iden(c)).into_column_ref(),
        ColRefSpec::Asterisk => Asterisk.into_column_ref(),
        ColRefSpec::TblAsterisk(a) => (cx.iden(a), Asterisk).into_column_ref(),
    }
}

#[derive(Clone, Debug, PartialEq, Serialize, Deserialize)]
pub enum TableRefSpec {
    Table(IdenSpec),
    SchemaTable(IdenSpec, IdenSpec),
    DbSchemaTable(IdenSpec, IdenSpec, IdenSpec),
    TableAlias(IdenSpec, IdenSpec),
    SchemaTableAlias(IdenSpec, IdenSpec, IdenSpec),
    DbSchemaTableAlias(IdenSpec, IdenSpec, IdenSpec, IdenSpec),
    SubQuery(Sub, IdenSpec),
    ValuesList(Vec<Vec<ValSpec>>, IdenSpec),
    Function(FuncSpec, IdenSpec),
}

/// plain table refs only (what schema statements and INSERT/UPDATE/DELETE targets take)
pub fn gen_plain_tableref(r: &mut Rng) -> TableRefSpec {
    match r.below(10) {
        0..=5 => TableRefSpec::Table(gen_iden(r)),
        6 | 7 => TableRefSpec::SchemaTable(gen_iden(r), gen_iden(r)),
        8 => TableRefSpec::DbSchemaTable(gen_iden(r), gen_iden(r), gen_iden(r)),
        _ => TableRefSpec::TableAlias(gen_iden(r), gen_iden(r)),
    }
}

pub fn gen_tableref(r: &mut Rng, g: &mut GenCx) -> TableRefSpec {
    match r.below(20) {
        0..=11 => gen_plain_tableref(r),
        12 => TableRefSpec::SchemaTableAlias(gen_iden(r), gen_iden(r), gen_iden(r)),
        13 => TableRefSpec::DbSchemaTableAlias(gen_iden(r), gen_iden(r), gen_iden(r), gen_iden(r)),
        14 | 15 | 16 => TableRefSpec::SubQuery(g.sub(r, Family::Select), gen_iden(r)),
        17 | 18 => {
            let w = r.range(1, 3);
            let rows = (0..r.range(1, 3))
                .map(|_| (0..w).map(|_| gen_val(r, g.allow_nan)).collect())
                .collect();
            TableRefSpec::ValuesList(rows, gen_iden(r))
        }
        _ => TableRefSpec::Function(gen_func(r, g), gen_iden(r)),
    }
}

pub fn mat_value_tuple(row: &[ValSpec]) -> ValueTuple {
    let mut v: Vec<Value> = row.iter().map(|x| x.to_value()).collect();
    match v.len() {
        1 => ValueTuple::One(v.pop().unwrap()),
        2 => {
            let b = v.pop().unwrap();
            ValueTuple::Two(v.pop().unwrap(), b)
        }
        3 => {
            let c = v.pop().unwrap();
            let b = v.pop().unwrap();
            ValueTuple::Three(v.pop().unwrap(), b, c)
        }
        _ => ValueTuple::Many(v),
    }
}

pub fn mat_tableref(t: &TableRefSpec, cx: &mut Ctx) -> TableRef {
    match t {
        TableRefSpec::Table(a) => cx.iden(a).into_table_ref(),
        TableRefSpec::SchemaTable(a, b) => (cx.iden(a), cx.iden(b)).into_table_ref(),
        TableRefSpec::DbSchemaTable(a, b, c) => (cx.iden(a), cx.iden(b), cx.iden(c)).into_table_ref(),
        TableRefSpec::TableAlias(a, b) => TableRef::Table(cx.iden(a)).alias(cx.iden(b)),
        TableRefSpec::SchemaTableAlias(a, b, c) => {
            TableRef::SchemaTableAlias(cx.iden(a), cx.iden(b), cx.iden(c))
        }
        TableRefSpec::DbSchemaTableAlias(a, b, c, d) => {
            TableRef::DatabaseSchemaTableAlias(cx.iden(a), cx.iden(b), cx.iden(c), cx.iden(d))
        }
        TableRefSpec::SubQuery(s, a) => TableRef::SubQuery(cx.sub_select(s), cx.iden(a)),
        TableRefSpec::ValuesList(rows, a) => TableRef::ValuesList(
            rows.iter().map(|r| mat_value_tuple(r)).collect(),
            cx.iden(a),
        ),
        TableRefSpec::Function(f, a) => TableRef::FunctionCall(mat_func(f, cx), cx.iden(a)),
    }
}

// ------------------------------------------------------------------------------------------
// expressions

#[derive(Clone, Debug, PartialEq, Serialize, Deserialize)]
pub struct FuncSpec {
    pub kind: u8,
    pub name: Option<IdenSpec>,
    pub args: Vec<ExprSpec>,
}

#[derive(Clone, Debug, PartialEq, Serialize, Deserialize)]
pub enum ExprSpec {
    Col(ColRefSpec),
    Val(ValSpec),
    Constant(ValSpec),
    Values(Vec<ValSpec>),
    Tuple(Vec<ExprSpec>),
    Not(Box<ExprSpec>),
    Bin(Box<ExprSpec>, u8, Box<ExprSpec>),
    Func(FuncSpec),
    Custom(String),
    CustomWith(String, Vec<ExprSpec>),
    Keyword(u8, Option<IdenSpec>),
    AsEnum(IdenSpec, Box<ExprSpec>),
    Case(Vec<(CondSpec, ExprSpec)>, Option<Box<ExprSpec>>),
    /// (operator: 0 none, 1 EXISTS, 2 ANY, 3 SOME, 4 ALL)
    SubQuery(u8, Sub),
}

pub const BINOPS: &[BinOper] = &[
    BinOper::And,
    BinOper::Or,
    BinOper::Like,
    BinOper::NotLike,
    BinOper::Is,
    BinOper::IsNot,
    BinOper::In,
    BinOper::NotIn,
    BinOper::Between,
    BinOper::NotBetween,
    BinOper::Equal,
    BinOper::NotEqual,
    BinOper::SmallerThan,
    BinOper::GreaterThan,
    BinOper::SmallerThanOrEqual,
    BinOper::GreaterThanOrEqual,
    BinOper::Add,
    BinOper::Sub,
    BinOper::Mul,
    BinOper::Div,
    BinOper::Mod,
    BinOper::BitAnd,
    BinOper::BitOr,
    BinOper::LShift,
    BinOper::RShift,
    BinOper::As,
    BinOper::Escape,
    BinOper::Custom("<=>"),
    BinOper::PgOperator(sea_query::extension::postgres::PgBinOper::ILike),
    BinOper::PgOperator(sea_query::extension::postgres::PgBinOper::Concatenate),
    BinOper::SqliteOperator(sea_query::extension::sqlite::SqliteBinOper::Glob),
];

/// shared generation context: depth budget, NaN policy, sub-statement source
pub struct GenCx<'a> {
    pub depth: u32,
    pub allow_nan: bool,
    /// callback deciding how a sub-statement argument of a family is obtained
    /// (inline log or reference to a live handle)
    pub sub_src: &'a mut dyn FnMut(&mut Rng, Family, u32, bool) -> Sub,
    /// inside closure bodies sub-statements are always inline (a branch may not run)
    pub inline_only: bool,
}

impl<'a> GenCx<'a> {
    pub fn sub(&mut self, r: &mut Rng, fam: Family) -> Sub {
        let d = self.depth;
        let io = self.inline_only;
        (self.sub_src)(r, fam, d, io)
    }
}

pub fn gen_func(r: &mut Rng, g: &mut GenCx) -> FuncSpec {
    let kind = r.below(16) as u8;
    let nargs = match kind {
        0..=7 => 1,          // max min sum avg abs count char_length lower
        8 | 9 => r.range(1, 3), // greatest, coalesce
        10 => 2,             // if_null
        11 => 1,             // cast_as (name)
        12 => r.range(0, 3), // cust(name)
        13 => 0,             // random
        14 => 1,             // count_distinct
        _ => 1,              // md5
    };
    let name = if kind == 11 || kind == 12 { Some(gen_iden(r)) } else { None };
    FuncSpec {
        kind,
        name,
        args: (0..nargs).map(|_| gen_expr(r, g)).collect(),
    }
}

pub fn mat_func(f: &FuncSpec, cx: &mut Ctx) -> FunctionCall {
    let mut args: Vec<SimpleExpr> = f.args.iter().map(|a| mat_expr(a, cx)).collect();
    let mut a0 = || {
        if args.is_empty() {
            SimpleExpr::Value(Value::Int(Some(0)))
        } else {
            args.remove(0)
        }
    };
    match f.kind {
        0 => Func::max(a0()),
        1 => Func::min(a0()),
        2 => Func::sum(a0()),
        3 => Func::avg(a0()),
        4 => Func::abs(a0()),
        5 => Func::count(a0()),
        6 => Func::char_length(a0()),
        7 => Func::lower(a0()),
        8 => Func::greatest(args),
        9 => Func::coalesce(args),
        10 => {
            let a = a0();
            let b = a0();
            Func::if_null(a, b)
        }
        11 => {
            let n = cx.iden(f.name.as_ref().unwrap());
            Func::cast_as(a0(), n)
        }
        12 => {
            let n = cx.iden(f.name.as_ref().unwrap());
            Func::cust(n).args(args)
        }
        13 => Func::random(),
        14 => Func::count_distinct(a0()),
        _ => Func::md5(a0()),
    }
}

pub fn gen_leaf_expr(r: &mut Rng, g: &mut GenCx) -> ExprSpec {
    match r.below(10) {
        0..=3 => ExprSpec::Col(gen_colref(r)),
        4..=7 => ExprSpec::Val(gen_val(r, g.allow_nan)),
        8 => ExprSpec::Custom(r.pick(&["1 + 1", "now()", "'lit'", "?"]).to_string()),
        _ => ExprSpec::Keyword(r.below(5) as u8, Some(gen_iden(r))),
    }
}

pub fn gen_expr(r: &mut Rng, g: &mut GenCx) -> ExprSpec {
    if g.depth == 0 || r.pct(45) {
        return gen_leaf_expr(r, g);
    }
    g.depth -= 1;
    let e = match r.below(20) {
        0..=7 => ExprSpec::Bin(
            Box::new(gen_expr(r, g)),
            r.below(BINOPS.len()) as u8,
            Box::new(gen_expr(r, g)),
        ),
        8 => ExprSpec::Not(Box::new(gen_expr(r, g))),
        9 | 10 => ExprSpec::Func(gen_func(r, g)),
        11 => ExprSpec::Tuple((0..r.range(1, 3)).map(|_| gen_expr(r, g)).collect()),
        12 => ExprSpec::Values((0..r.range(0, 3)).map(|_| gen_val(r, g.allow_nan)).collect()),
        13 => ExprSpec::CustomWith(
            r.pick(&["$1 + $2", "? * ?", "f($1)", "$$", "??"]).to_string(),
            (0..r.range(0, 2)).map(|_| gen_expr(r, g)).collect(),
        ),
        14 => ExprSpec::AsEnum(gen_iden(r), Box::new(gen_expr(r, g))),
        15 => ExprSpec::Case(
            (0..r.range(1, 2))
                .map(|_| (gen_cond(r, g), gen_expr(r, g)))
                .collect(),
            if r.coin() { Some(Box::new(gen_expr(r, g))) } else { None },
        ),
        16 | 17 => ExprSpec::SubQuery(r.below(5) as u8, g.sub(r, Family::Select)),
        18 => ExprSpec::Constant(gen_val(r, g.allow_nan)),
        _ => ExprSpec::Bin(
            Box::new(ExprSpec::Col(gen_colref(r))),
            6,
            Box::new(ExprSpec::Tuple(
                (0..r.range(1, 3)).map(|_| ExprSpec::Val(gen_val(r, g.allow_nan))).collect(),
            )),
        ),
    };
    g.depth += 1;
    e
}

pub fn mat_expr(e: &ExprSpec, cx: &mut Ctx) -> SimpleExpr {
    match e {
        ExprSpec::Col(c) => SimpleExpr::Column(mat_colref(c, cx)),
        ExprSpec::Val(v) => SimpleExpr::Value(v.to_value()),
        ExprSpec::Constant(v) => SimpleExpr::Constant(v.to_value()),
        ExprSpec::Values(vs) => SimpleExpr::Values(vs.iter().map(|v| v.to_value()).collect()),
        ExprSpec::Tuple(es) => SimpleExpr::Tuple(es.iter().map(|x| mat_expr(x, cx)).collect()),
        ExprSpec::Not(x) => SimpleExpr::Unary(UnOper::Not, Box::new(mat_expr(x, cx))),
        ExprSpec::Bin(l, op, r) => {
            let l = mat_expr(l, cx);
            let r = mat_expr(r, cx);
            SimpleExpr::Binary(Box::new(l), BINOPS[*op as usize % BINOPS.len()], Box::new(r))
        }
        ExprSpec::Func(f) => SimpleExpr::FunctionCall(mat_func(f, cx)),
        ExprSpec::Custom(s) => SimpleExpr::Custom(s.clone()),
        ExprSpec::CustomWith(s, es) => {
            SimpleExpr::CustomWithExpr(s.clone(), es.iter().map(|x| mat_expr(x, cx)).collect())
        }
        ExprSpec::Keyword(k, n) => SimpleExpr::Keyword(match k {
            0 => Keyword::Null,
            1 => Keyword::CurrentDate,
            2 => Keyword::CurrentTime,
            3 => Keyword::CurrentTimestamp,
            _ => match n {
                Some(n) => Keyword::Custom(cx.iden(n)),
                None => Keyword::Null,
            },
        }),
        ExprSpec::AsEnum(n, x) => {
            let n = cx.iden(n);
            SimpleExpr::AsEnum(n, Box::new(mat_expr(x, cx)))
        }
        ExprSpec::Case(whens, els) => {
            let mut c = CaseStatement::new();
            for (cond, then) in whens {
                let cond = mat_cond(cond, cx);
                let then = mat_expr(then, cx);
                c = c.case(cond, then);
            }
            if let Some(x) = els {
                c = c.finally(mat_expr(x, cx));
            }
            c.into()
        }
        ExprSpec::SubQuery(op, s) => {
            let sel = cx.sub_select(s);
            let oper = match op {
                1 => Some(SubQueryOper::Exists),
                2 => Some(SubQueryOper::Any),
                3 => Some(SubQueryOper::Some),
                4 => Some(SubQueryOper::All),
                _ => None,
            };
            SimpleExpr::SubQuery(oper, Box::new(sel.into_sub_query_statement()))
        }
    }
}

// ------------------------------------------------------------------------------------------
// conditions

#[derive(Clone, Debug, PartialEq, Serialize, Deserialize)]
pub struct CondSpec {
    pub any: bool,
    pub negate: bool,
    pub items: Vec<CondItem>,
}

#[derive(Clone, Debug, PartialEq, Serialize, Deserialize)]
pub enum CondItem {
    Expr(ExprSpec),
    Cond(CondSpec),
}

pub fn gen_cond(r: &mut Rng, g: &mut GenCx) -> CondSpec {
    let n = r.range(0, 3);
    let mut items = Vec::new();
    for _ in 0..n {
        if g.depth > 0 && r.pct(25) {
            g.depth -= 1;
            items.push(CondItem::Cond(gen_cond(r, g)));
            g.depth += 1;
        } else {
            items.push(CondItem::Expr(gen_expr(r, g)));
        }
    }
    CondSpec {
        any: r.pct(40),
        negate: r.pct(20),
        items,
    }
}

pub fn mat_cond(c: &CondSpec, cx: &mut Ctx) -> Condition {
    let mut out = if c.any { Condition::any() } else { Condition::all() };
    for it in &c.items {
        out = match it {
            CondItem::Expr(e) => out.add(mat_expr(e, cx)),
            CondItem::Cond(c2) => out.add(mat_cond(c2, cx)),
        };
    }
    if c.negate {
        out = out.not();
    }
    out
}

// ------------------------------------------------------------------------------------------
// order, frames, returning, column types

#[derive(Clone, Debug, PartialEq, Serialize, Deserialize)]
pub enum OrderSpec {
    Asc,
    Desc,
    Field(Vec<ValSpec>),
}

pub fn gen_order(r: &mut Rng, g: &mut GenCx) -> OrderSpec {
    match r.below(7) {
        0..=2 => OrderSpec::Asc,
        3..=5 => OrderSpec::Desc,
        _ => OrderSpec::Field((0..r.range(1, 3)).map(|_| gen_val(r, g.allow_nan)).collect()),
    }
}

pub fn mat_order(o: &OrderSpec) -> Order {
    match o {
        OrderSpec::Asc => Order::Asc,
        OrderSpec::Desc => Order::Desc,
        OrderSpec::Field(vs) => Order::Field(Values(vs.iter().map(|v| v.to_value()).collect())),
    }
}

pub fn mat_nulls(first: bool) -> NullOrdering {
    if first {
        NullOrdering::First
    } else {
        NullOrdering::Last
    }
}

#[derive(Clone, Debug, PartialEq, Serialize, Deserialize)]
pub enum FrameSpec {
    UnboundedPreceding,
    Preceding(u32),
    CurrentRow,
    Following(u32),
    UnboundedFollowing,
}

pub fn gen_frame(r: &mut Rng) -> FrameSpec {
    match r.below(5) {
        0 => FrameSpec::UnboundedPreceding,
        1 => FrameSpec::Preceding(r.below(9) as u32),
        2 => FrameSpec::CurrentRow,
        3 => FrameSpec::Following(r.below(9) as u32),
        _ => FrameSpec::UnboundedFollowing,
    }
}

pub fn mat_frame(f: &FrameSpec) -> Frame {
    match f {
        FrameSpec::UnboundedPreceding => Frame::UnboundedPreceding,
        FrameSpec::Preceding(n) => Frame::Preceding(*n),
        FrameSpec::CurrentRow => Frame::CurrentRow,
        FrameSpec::Following(n) => Frame::Following(*n),
        FrameSpec::UnboundedFollowing => Frame::UnboundedFollowing,
    }
}

#[derive(Clone, Debug, PartialEq, Serialize, Deserialize)]
pub enum ReturningSpec {
    All,
    Columns(Vec<ColRefSpec>, IterB),
    Exprs(Vec<ExprSpec>, IterB),
    Column(ColRefSpec),
    Expr(ExprSpec),
}

pub fn gen_returning(r: &mut Rng, g: &mut GenCx) -> ReturningSpec {
    match r.below(5) {
        0 => ReturningSpec::All,
        1 => ReturningSpec::Columns((0..r.range(0, 3)).map(|_| gen_colref(r)).collect(), gen_iterb(r)),
        2 => ReturningSpec::Exprs((0..r.range(0, 2)).map(|_| gen_expr(r, g)).collect(), gen_iterb(r)),
        3 => ReturningSpec::Column(gen_colref(r)),
        _ => ReturningSpec::Expr(gen_expr(r, g)),
    }
}

pub fn mat_returning(s: &ReturningSpec, cx: &mut Ctx) -> ReturningClause {
    match s {
        ReturningSpec::All => Query::returning().all(),
        ReturningSpec::Columns(cs, b) => {
            let v: Vec<ColumnRef> = cs.iter().map(|c| mat_colref(c, cx)).collect();
            Query::returning().columns(cx.iter(v, *b))
        }
        ReturningSpec::Exprs(es, b) => {
            let v: Vec<SimpleExpr> = es.iter().map(|e| mat_expr(e, cx)).collect();
            Query::returning().exprs(cx.iter(v, *b))
        }
        ReturningSpec::Column(c) => Query::returning().column(mat_colref(c, cx)),
        ReturningSpec::Expr(e) => Query::returning().expr(mat_expr(e, cx)),
    }
}

/// honest most of the time; lying size hints otherwise (never panicking: that fault kind is
/// placed explicitly by the INSERT workload)
pub fn gen_iterb(r: &mut Rng) -> IterB {
    match r.below(10) {
        0 => IterB::LieLow,
        1 => IterB::LieHigh,
        _ => IterB::Honest,
    }
}

#[derive(Clone, Debug, PartialEq, Serialize, Deserialize)]
pub enum ColTypeSpec {
    /// index into the list of parameterless variants
    Simple(u8),
    Char(Option<u32>),
    StringN(Option<u32>),
    Decimal(Option<(u32, u32)>),
    Binary(u32),
    VarBinary(u32),
    Bit(Option<u32>),
    VarBit(u32),
    Money(Option<(u32, u32)>),
    Interval(Option<u8>, Option<u32>),
    Custom(IdenSpec),
    Enum(IdenSpec, Vec<IdenSpec>),
    Array(Box<ColTypeSpec>),
}

pub fn gen_coltype(r: &mut Rng, depth: u32) -> ColTypeSpec {
    match r.below(20) {
        0..=7 => ColTypeSpec::Simple(r.below(26) as u8),
        8 => ColTypeSpec::Char(if r.coin() { Some(r.below(64) as u32) } else { None }),
        9 | 10 => ColTypeSpec::StringN(if r.coin() { Some(r.below(255) as u32) } else { None }),
        11 => ColTypeSpec::Decimal(if r.coin() { Some((10, 2)) } else { None }),
        12 => ColTypeSpec::Binary(r.below(32) as u32),
        13 => ColTypeSpec::VarBinary(r.below(32) as u32),
        14 => ColTypeSpec::Bit(if r.coin() { Some(r.below(8) as u32) } else { None }),
        15 => ColTypeSpec::Money(if r.coin() { Some((19, 4)) } else { None }),
        16 => ColTypeSpec::Custom(gen_iden(r)),
        17 => ColTypeSpec::Enum(gen_iden(r), gen_idens(r, 0, 3)),
        18 if depth > 0 => ColTypeSpec::Array(Box::new(gen_coltype(r, depth - 1))),
        18 => ColTypeSpec::VarBit(r.below(16) as u32),
        _ => ColTypeSpec::Interval(
            if r.coin() { Some(r.below(13) as u8) } else { None },
            if r.coin() { Some(r.below(6) as u32) } else { None },
        ),
    }
}

pub fn mat_coltype(t: &ColTypeSpec, cx: &mut Ctx) -> ColumnType {
    match t {
        ColTypeSpec::Simple(k) => match k % 26 {
            0 => ColumnType::Text,
            1 => ColumnType::Blob,
            2 => ColumnType::TinyInteger,
            3 => ColumnType::SmallInteger,
            4 => ColumnType::Integer,
            5 => ColumnType::BigInteger,
            6 => ColumnType::TinyUnsigned,
            7 => ColumnType::SmallUnsigned,
            8 => ColumnType::Unsigned,
            9 => ColumnType::BigUnsigned,
            10 => ColumnType::Float,
            11 => ColumnType::Double,
            12 => ColumnType::DateTime,
            13 => ColumnType::Timestamp,
            14 => ColumnType::TimestampWithTimeZone,
            15 => ColumnType::Time,
            16 => ColumnType::Date,
            17 => ColumnType::Year,
            18 => ColumnType::Boolean,
            19 => ColumnType::Json,
            20 => ColumnType::JsonBinary,
            21 => ColumnType::Uuid,
            22 => ColumnType::Cidr,
            23 => ColumnType::Inet,
            24 => ColumnType::MacAddr,
            _ => ColumnType::LTree,
        },
        ColTypeSpec::Char(n) => ColumnType::Char(*n),
        ColTypeSpec::StringN(n) => ColumnType::string(*n),
        ColTypeSpec::Decimal(p) => ColumnType::Decimal(*p),
        ColTypeSpec::Binary(n) => ColumnType::Binary(*n),
        ColTypeSpec::VarBinary(n) => ColumnType::var_binary(*n),
        ColTypeSpec::Bit(n) => ColumnType::Bit(*n),
        ColTypeSpec::VarBit(n) => ColumnType::VarBit(*n),
        ColTypeSpec::Money(p) => ColumnType::Money(*p),
        ColTypeSpec::Interval(f, p) => ColumnType::Interval(f.map(mat_pg_interval), *p),
        ColTypeSpec::Custom(n) => ColumnType::Custom(cx.iden(n)),
        ColTypeSpec::Enum(n, vs) => ColumnType::Enum {
            name: cx.iden(n),
            variants: vs.iter().map(|v| cx.iden(v)).collect(),
        },
        ColTypeSpec::Array(inner) => ColumnType::Array(RcOrArc::new(mat_coltype(inner, cx))),
    }
}

pub fn mat_pg_interval(k: u8) -> PgInterval {
    match k % 13 {
        0 => PgInterval::Year,
        1 => PgInterval::Month,
        2 => PgInterval::Day,
        3 => PgInterval::Hour,
        4 => PgInterval::Minute,
        5 => PgInterval::Second,
        6 => PgInterval::YearToMonth,
        7 => PgInterval::DayToHour,
        8 => PgInterval::DayToMinute,
        9 => PgInterval::DayToSecond,
        10 => PgInterval::HourToMinute,
        11 => PgInterval::HourToSecond,
        _ => PgInterval::MinuteToSecond,
    }
}
