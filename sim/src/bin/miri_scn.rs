//! miri_scn — the thread scenarios on real `std::thread`s; meant to run under Miri
//! (`cargo +nightly miri run ... -Zmiri-many-seeds`), whose seeded scheduler preempts inside
//! sea-query and `Arc`, and whose data-race / aliasing / UB detector is the oracle next to the
//! lineage assertions. Also runs natively (then it is just a smoke test).
//!
//!   miri_scn <seed> <first-program> <programs>            threads first (so that first uses of
//!                                                         lazily initialised state are contended)
//!   miri_scn <seed> <first-program> <programs> pipeline   only S1 pipelines (statement built on
//!                                                         one thread, mutated on a second, rendered
//!                                                         on a third; never two threads at once, so
//!                                                         deterministic on real threads: run natively
//!                                                         to reach per-thread state, which shuttle's
//!                                                         single OS thread cannot show)
//!   miri_scn <seed> <first-program> <programs> baseline   the same programs without any thread
//!                                                         (fresh process): a program that fails
//!                                                         here is not a thread-safety matter

use seasim::rng::{run_seed, Rng};
use seasim::thread_scn::*;

fn main() {
    std::panic::set_hook(Box::new(|_| {}));
    let a: Vec<String> = std::env::args().collect();
    let seed: u64 = a.get(1).and_then(|s| s.parse().ok()).unwrap_or(20240601);
    let first: u64 = a.get(2).and_then(|s| s.parse().ok()).unwrap_or(0);
    let n: u64 = a.get(3).and_then(|s| s.parse().ok()).unwrap_or(2);
    let mode = a.get(4).cloned().unwrap_or_default();
    let baseline = mode == "baseline" || mode == "pipeline-baseline";
    let pipeline = mode.starts_with("pipeline");
    let mut bad = 0;
    let mut harness = 0;
    for i in first..first + n {
        let mut r = Rng::new(run_seed(seed, i));
        let sc = if pipeline {
            gen_scenario_kind(&mut r, false, Some(0))
        } else {
            gen_scenario(&mut r, true)
        };
        if a.get(4).map(|s| s == "dump").unwrap_or(false) {
            println!("SCENARIO {} {}", i, serde_json::to_string(&sc).unwrap());
            continue;
        }
        let f = if baseline {
            run_scenario::<SeqRt>(&sc)
        } else {
            run_scenario::<StdRt>(&sc)
        };
        if f.is_empty() {
            if !pipeline {
                println!("program {} ({}) ok", i, sc.kind());
            }
        } else if f.iter().any(|x| x.check == "harness") {
            // the harness itself tripped (an actor panicked, a gate starved): never a finding
            // about sea-query
            harness += 1;
            println!("program {} ({}) HARNESS-TROUBLE {:?}", i, sc.kind(), f);
        } else {
            bad += 1;
            println!("program {} ({}) FINDINGS {:?}", i, sc.kind(), f);
            println!("SCENARIO {}", serde_json::to_string(&sc).unwrap());
        }
    }
    std::process::exit(if bad > 0 { 1 } else if harness > 0 { 3 } else { 0 });
}
