//! opsim — cooperative deterministic simulation of builder call histories (C10, C15).
//!
//!   opsim run --prop C10|C15 --runs N [--seed S] [--threads T] [--tier quick|thorough]
//!             [--evidence FILE] [--replay-dir DIR] [--known FILE] [--hashes FILE] [--first-run K]
//!   opsim replay FILE [--known FILE]
//!
//! exit 0: property held on everything explored; 1: violation (VIOLATION line printed);
//! 2: harness error.

use seasim::exec::{Stop, Violation};
use seasim::model::Prop;
use seasim::runner::*;
use std::collections::BTreeMap;
use std::time::Instant;

fn arg(args: &[String], name: &str) -> Option<String> {
    args.iter().position(|a| a == name).and_then(|i| args.get(i + 1).cloned())
}

fn load_known(path: Option<String>, prop: &str) -> Vec<String> {
    let Some(p) = path else { return vec![] };
    let Ok(text) = std::fs::read_to_string(&p) else {
        eprintln!("HARNESS: cannot read the known-findings file {}", p);
        std::process::exit(2);
    };
    let mut out = Vec::new();
    for line in text.lines() {
        let line = line.trim();
        if let Some(rest) = line.strip_prefix("open:") {
            let rest = rest.trim();
            let tag = format!("property={} ", prop);
            if let Some(k) = rest.strip_prefix(&tag) {
                out.push(k.trim().to_string());
            }
        }
    }
    out
}

fn main() {
    let dbg = std::env::var("OPSIM_DEBUG_PANICS").is_ok();
    std::panic::set_hook(Box::new(move |info| {
        if dbg {
            eprintln!("panic: {}", info);
        }
    }));
    let args: Vec<String> = std::env::args().collect();
    let code = match args.get(1).map(|s| s.as_str()) {
        Some("run") => cmd_run(&args),
        Some("replay") => cmd_replay(&args),
        _ => {
            eprintln!("usage: opsim run|replay ...");
            2
        }
    };
    std::process::exit(code);
}

#[allow(clippy::too_many_arguments)]
fn finish_evidence(args: &[String], prop: &str, tier: &str, seed: u64, runs: u64, threads: usize, out: &BatchOut, wall: f64, exit: i32, violation: serde_json::Value) -> i32 {
    if let Some(path) = arg(args, "--evidence") {
        let ev = evidence(prop, tier, seed, runs, threads, out, wall, exit, violation);
        if let Some(parent) = std::path::Path::new(&path).parent() {
            std::fs::create_dir_all(parent).ok();
        }
        std::fs::write(&path, serde_json::to_string_pretty(&ev).unwrap()).ok();
    }
    exit
}

fn parse_prop(s: &str) -> Prop {
    match s {
        "C10" => Prop::C10,
        "C15" => Prop::C15,
        _ => {
            eprintln!("HARNESS: unknown property {}", s);
            std::process::exit(2);
        }
    }
}

fn cmd_replay(args: &[String]) -> i32 {
    let Some(path) = args.get(2) else {
        eprintln!("usage: opsim replay FILE");
        return 2;
    };
    let text = match std::fs::read_to_string(path) {
        Ok(t) => t,
        Err(e) => {
            eprintln!("HARNESS: cannot read {}: {}", path, e);
            return 2;
        }
    };
    let tr: Trace = match serde_json::from_str(&text) {
        Ok(t) => t,
        Err(e) => {
            eprintln!("HARNESS: cannot parse {}: {}", path, e);
            return 2;
        }
    };
    let known = load_known(arg(args, "--known"), &tr.property);
    let (stop, _, hash) = execute(&tr.cfg, &tr.steps, &known);
    match stop {
        Some(Stop::Violation(v)) => {
            println!(
                "replayed {} steps (trace hash {:016x}): check {} failed at step {}: {}",
                tr.steps.len(),
                hash,
                v.check,
                v.step,
                v.detail
            );
            let same = v.check == tr.violation.check && v.detail == tr.violation.detail;
            println!("identical to recorded violation: {}", same);
            println!("VIOLATION property={} replay={}", v.property, path);
            1
        }
        Some(Stop::Harness(m)) => {
            eprintln!("HARNESS: {}", m);
            2
        }
        None => {
            println!("replay of {} did not violate anything on this tree", path);
            0
        }
    }
}

/// what gets reported for a violating run: the replay file and the lines describing it
struct Artifact {
    property: String,
    path: String,
    chunk: bool,
    first: u64,
    n: u64,
    lines: Vec<String>,
    json: serde_json::Value,
}

#[allow(clippy::too_many_arguments)]
fn materialise(prop_s: &str, seed: u64, first_run: u64, replay_dir: &str, i: u64, res: &RunResult, v: &Violation, known: &[String]) -> Artifact {
    let _ = prop_s;
    // re-execute the explicit steps on a fresh thread (as a replay in a fresh process
    // would) and minimise there
    let isolated = std::thread::scope(|sc| {
        std::thread::Builder::new()
            .stack_size(16 << 20)
            .spawn_scoped(sc, || {
                let (stop, _, _) = execute(&res.cfg, &res.steps, known);
                if same_violation(&stop, v) {
                    Some(minimise(&res.cfg, &res.steps, v, known))
                } else {
                    None
                }
            })
            .expect("HARNESS: spawn")
            .join()
            .unwrap_or(None)
    });
    let dir = format!("{}/{}", replay_dir, v.property);
    std::fs::create_dir_all(&dir).ok();
    let Some((steps, v2)) = isolated else {
        // the run only fails after the runs that preceded it on its thread: the tree under
        // test keeps per-thread state. Replay = the chunk prefix, single-threaded.
        let first = ((i / CHUNK) * CHUNK).max(first_run);
        let path = format!("{}/chunk-{}-{}.json", dir, seed, i);
        let j = serde_json::json!({"property": v.property, "mode": "chunk", "check": v.check, "seed": seed,
            "first_run": first, "runs": i - first + 1, "violation": v,
            "what": "run fails only after the preceding runs of its chunk executed on the same thread (per-thread state in the tree under test); replay re-runs the chunk prefix on one thread"});
        std::fs::write(&path, serde_json::to_string_pretty(&j).unwrap()).ok();
        return Artifact {
            property: v.property.clone(),
            path: path.clone(),
            chunk: true,
            first,
            n: i - first + 1,
            lines: vec![format!("violation in run {} (seed {}): check {} — {} [only after runs {}..{} on the same thread]", i, seed, v.check, v.detail, first, i)],
            json: serde_json::json!({"run": i, "check": v.check, "detail": v.detail, "replay": path}),
        };
    };
    let tr = Trace {
        property: v2.property.clone(),
        check: v2.check.clone(),
        mode: "coop".into(),
        seed,
        run: i,
        cfg: res.cfg.clone(),
        original_steps: res.steps.len(),
        steps,
        violation: v2.clone(),
        minimised: true,
    };
    let path = format!("{}/{}-{}.json", dir, seed, i);
    std::fs::write(&path, serde_json::to_string_pretty(&tr).unwrap()).ok();
    Artifact {
        property: v2.property.clone(),
        path: path.clone(),
        chunk: false,
        first: 0,
        n: 0,
        lines: vec![
            format!("violation in run {} (seed {}): check {} — {}", i, seed, v2.check, v2.detail),
            format!("minimised from {} to {} steps; replay file {}", res.steps.len(), tr.steps.len(), path),
        ],
        json: serde_json::json!({"run": i, "check": v2.check, "detail": v2.detail, "replay": path, "steps": tr.steps.len()}),
    }
}

/// does the replay file reproduce a violation of the same property in a fresh process?
fn confirm_in_fresh_process(art: &Artifact, prop_s: &str, seed: u64, known_path: Option<String>) -> bool {
    let Ok(exe) = std::env::current_exe() else { return true };
    let mut c = std::process::Command::new(exe);
    if art.chunk {
        let scratch = format!("{}.confirm", art.path);
        c.args(["run", "--prop", prop_s, "--seed", &seed.to_string(), "--first-run", &art.first.to_string(), "--runs", &art.n.to_string(), "--threads", "1", "--no-confirm", "--replay-dir", &scratch]);
        if let Some(k) = &known_path {
            c.args(["--known", k]);
        }
        let st = c.stdout(std::process::Stdio::null()).stderr(std::process::Stdio::null()).status();
        std::fs::remove_dir_all(&scratch).ok();
        match st {
            Ok(s) => s.code() == Some(1),
            Err(_) => true,
        }
    } else {
        c.args(["replay", &art.path]);
        if let Some(k) = &known_path {
            c.args(["--known", k]);
        }
        match c.stdout(std::process::Stdio::null()).stderr(std::process::Stdio::null()).status() {
            // a crash of the replay is not "does not reproduce": keep the report
            Ok(s) => s.code() != Some(0),
            Err(_) => true,
        }
    }
}

fn cmd_run(args: &[String]) -> i32 {
    let t0 = Instant::now();
    let prop_s = arg(args, "--prop").unwrap_or_else(|| "C15".into());
    let prop = parse_prop(&prop_s);
    let runs: u64 = arg(args, "--runs").and_then(|s| s.parse().ok()).unwrap_or(1000);
    let seed: u64 = arg(args, "--seed")
        .or_else(|| std::env::var("VERIF_SEED").ok())
        .and_then(|s| s.parse().ok())
        .unwrap_or(20240601);
    let threads: usize = arg(args, "--threads").and_then(|s| s.parse().ok()).unwrap_or(16);
    let first_run: u64 = arg(args, "--first-run").and_then(|s| s.parse().ok()).unwrap_or(0);
    let tier = arg(args, "--tier").unwrap_or_else(|| "quick".into());
    let replay_dir = arg(args, "--replay-dir").unwrap_or_else(|| "/verif/replays".into());
    let known = load_known(arg(args, "--known"), &prop_s);
    let hashes_file = arg(args, "--hashes");
    if let Some(d) = arg(args, "--progress-dir") {
        std::fs::remove_dir_all(&d).ok(); // no stale marks from an earlier run
        std::fs::create_dir_all(&d).ok();
        let _ = PROGRESS_DIR.set(d);
    }
    println!("VERIF_SEED={} prop={} runs={} first_run={} threads={} tier={}", seed, prop_s, runs, first_run, threads, tier);

    let mut out = run_batch(prop, seed, first_run, runs, threads, &known, hashes_file.is_some(), true);
    // A violation counts only if it is still there once every injected fault (identifier panics,
    // failing sinks, nested observations, panicking row iterators) is removed from the run: the
    // properties do not speak about callers whose own code blows up. Otherwise the batch resumes
    // behind that run.
    let mut fault_induced: Vec<serde_json::Value> = Vec::new();
    let mut not_replayable: Vec<serde_json::Value> = Vec::new();
    let mut confirmed: Option<Artifact> = None;
    let no_confirm = args.iter().any(|a| a == "--no-confirm");
    loop {
        let Some((i, res)) = &out.first_violation else { break };
        let Some(Stop::Violation(v)) = &res.stop else { break };
        let stripped = strip_faults(&res.steps);
        let survives = stripped == res.steps || {
            let (cfg, known2, v2) = (res.cfg.clone(), known.clone(), v.clone());
            std::thread::scope(|sc| {
                std::thread::Builder::new()
                    .stack_size(16 << 20)
                    .spawn_scoped(sc, move || {
                        let (stop, _, _) = execute(&cfg, &stripped, &known2);
                        matches!(stop, Some(Stop::Violation(w)) if w.property == v2.property)
                    })
                    .expect("HARNESS: spawn")
                    .join()
                    .unwrap_or(false)
            })
        };
        if survives {
            if no_confirm {
                break;
            }
            // The replay file must reproduce the violation in a fresh process. If it does not,
            // the run depends on state that the tree under test keeps across runs and worker
            // threads (a process-global flag, a cache shared between threads …): rendering is
            // then not a function of the statement — not a matter of this property — and there
            // is nothing replayable to report. The batch resumes behind that run.
            let art = materialise(&prop_s, seed, first_run, &replay_dir, *i, res, v, &known);
            if confirm_in_fresh_process(&art, &prop_s, seed, arg(args, "--known")) {
                confirmed = Some(art);
                break;
            }
            std::fs::remove_file(&art.path).ok();
            println!("note: run {} (check {}) does not reproduce from its replay file in a fresh process: it depends on state kept across runs / worker threads by the tree under test; not a violation of {} — resuming behind it", i, v.check, prop_s);
            not_replayable.push(serde_json::json!({"run": i, "check": v.check}));
        } else {
            println!("note: run {} diverges only under an injected fault (check {}); not a violation of {} — resuming behind it", i, v.check, prop_s);
            fault_induced.push(serde_json::json!({"run": i, "check": v.check}));
        }
        let next_first = *i + 1;
        let done_runs = out.runs;
        let end = first_run + runs;
        if next_first >= end || fault_induced.len() + not_replayable.len() >= 20 {
            out.first_violation = None;
            break;
        }
        let mut rest = run_batch(prop, seed, next_first, end - next_first, threads, &known, false, true);
        rest.runs += done_runs;
        rest.stats.merge(&out.stats);
        rest.nontrivial_sigs.extend(out.nontrivial_sigs.iter().copied());
        rest.interleavings.extend(out.interleavings.iter().copied());
        rest.samples = std::mem::take(&mut out.samples);
        rest.harness_errors.extend(out.harness_errors.iter().cloned());
        rest.hashes = std::mem::take(&mut out.hashes);
        out = rest;
    }
    let out = out;

    if let Some(f) = hashes_file {
        let mut s = String::new();
        for (i, h) in &out.hashes {
            s.push_str(&format!("{} {:016x}\n", i, h));
        }
        std::fs::write(f, s).ok();
    }

    let mut exit = 0;
    let mut violation_json = serde_json::Value::Null;
    if let Some((i, res)) = &out.first_violation {
        if let Some(Stop::Violation(v)) = &res.stop {
            let art = match confirmed.take() {
                Some(a) => a,
                None => materialise(&prop_s, seed, first_run, &replay_dir, *i, res, v, &known),
            };
            for l in &art.lines {
                println!("{}", l);
            }
            println!("VIOLATION property={} replay={}", art.property, art.path);
            violation_json = art.json.clone();
            exit = 1;
            if art.chunk {
                std::process::exit(finish_evidence(args, &prop_s, &tier, seed, runs, threads, &out, t0.elapsed().as_secs_f64(), 1, violation_json));
            }
        }
    }
    if !not_replayable.is_empty() {
        println!("note: {} violating run(s) were not replayable in a fresh process and are not reported (state kept across runs / threads by the tree under test)", not_replayable.len());
    }
    if !out.harness_errors.is_empty() && exit == 0 {
        let (i, m) = &out.harness_errors[0];
        eprintln!("HARNESS: run {}: {} ({} harness errors)", i, m, out.harness_errors.len());
        exit = 2;
    }
    // reach: in the thorough tier a probe or fault kind that never fired means the workload does
    // not reach what it claims to (harness error, not a violation)
    if tier == "thorough" && exit == 0 {
        let need_faults: &[&str] = if prop_s == "C10" {
            &["op_rejected_err", "op_unwound", "batch_unwound_mid", "iter_panic_after_j", "iden_panic_in_render", "writer_error_at_k"]
        } else {
            &["iden_panic_in_render", "iden_panic_in_eq", "iden_panic_in_debug", "writer_error_at_k", "handle_dropped_while_shared", "nested_observation_in_render"]
        };
        let need_probes: &[&str] = if prop_s == "C10" {
            &["failed_op_then_continue"]
        } else {
            &["take_of_nonempty_source", "clear_removed_something", "clear_kept_something", "composed_clone_of_live_handle", "composed_take_of_live_handle", "composed_move_of_live_handle", "self_reference_clone", "relative_checked_after_mutation"]
        };
        for k in need_faults {
            if out.stats.faults.get(k).copied().unwrap_or(0) == 0 {
                eprintln!("HARNESS: fault kind {} never fired in the thorough tier", k);
                exit = 2;
            }
        }
        for k in need_probes {
            if out.stats.probes.get(k).copied().unwrap_or(0) == 0 {
                eprintln!("HARNESS: reach probe {} stuck at zero in the thorough tier", k);
                exit = 2;
            }
        }
    }
    for (k, n) in &out.stats.known_findings {
        println!("KNOWN-FINDING: property={} {} (model-predicted in {} checks of this batch)", prop_s, k, n);
    }

    let wall = t0.elapsed().as_secs_f64();
    if let Some(path) = arg(args, "--evidence") {
        let ev = evidence(&prop_s, &tier, seed, runs, threads, &out, wall, exit, violation_json);
        if let Some(parent) = std::path::Path::new(&path).parent() {
            std::fs::create_dir_all(parent).ok();
        }
        std::fs::write(&path, serde_json::to_string_pretty(&ev).unwrap()).expect("write evidence");
    }
    println!(
        "{} runs, {} steps, {} distinct non-trivial signatures, {} distinct interleavings, {:.1}s ({:.0} runs/h)",
        out.runs,
        out.stats.steps,
        out.nontrivial_sigs.len(),
        out.interleavings.len(),
        wall,
        out.runs as f64 / wall * 3600.0
    );
    exit
}

#[allow(clippy::too_many_arguments)]
fn evidence(
    prop: &str,
    tier: &str,
    seed: u64,
    runs: u64,
    threads: usize,
    out: &BatchOut,
    wall: f64,
    exit: i32,
    violation: serde_json::Value,
) -> serde_json::Value {
    let st = &out.stats;
    let faults: BTreeMap<String, u64> = st.faults.iter().map(|(k, v)| (k.to_string(), *v)).collect();
    let probes: BTreeMap<String, u64> = st.probes.iter().map(|(k, v)| (k.to_string(), *v)).collect();
    let checks: BTreeMap<String, u64> = st.checks.iter().map(|(k, v)| (k.to_string(), *v)).collect();
    let mut grid: Vec<serde_json::Value> = Vec::new();
    for ((c, w, style), n) in &st.c10_grid {
        grid.push(serde_json::json!({"cols": c, "row_width": w, "outcome": style, "hits": n}));
    }
    let rule = if prop == "C10" {
        "a case is one seeded run: swarm configuration, then up to 60 generated builder calls on 1-5 live handles (INSERT histories with matching / mismatching rows, panicking and lying row iterators, select sources, column re-declaration), every step checked against the lineage model; non-trivial = the run contains at least one rejected or unwound row operation after which the history continued; distinct = distinct sequences of step kinds"
    } else {
        "a case is one seeded run: swarm configuration (families, densities, fault rates), then up to 60 generated steps on 2-10 live handles that alias reference-counted structure (builder calls, composition by clone/take/move, take, clone, clear_*/reset_*, drop, faulty and nested observations), every step checked against the lineage model; non-trivial = the run executed at least one value operation (take / clone / clear / composition of a live handle); distinct = distinct sequences of step kinds"
    };
    serde_json::json!({
        "property_id": prop,
        "tier": tier,
        "seed": seed,
        "level": "exploration",
        "coverage": {
            "evaluations": out.runs,
            "distinct_nontrivial": out.nontrivial_sigs.len(),
            "rule": rule,
            "samples": out.samples,
            "requested_runs": runs,
            "worker_threads": threads,
            "steps_executed": st.steps,
            "steps_skipped_invalid": st.skipped_steps,
            "simulated_time": format!("{} steps (the system has no clock)", st.steps),
            "runs_per_hour": if wall > 0.0 { (out.runs as f64 / wall * 3600.0) as u64 } else { 0 },
            "distinct_interleavings": out.interleavings.len(),
            "interleaving_measure": "distinct sequences of (handle, step kind) over the whole run",
            "faults_fired": faults,
            "reach_probes": probes,
            "checks_evaluated": checks,
            "steps_by_kind": st.by_kind,
            "value_op_position_deciles": st.value_op_positions,
            "c10_grid": grid,
            "known_findings_seen": st.known_findings,
            "harness_errors": out.harness_errors.len(),
            "violating_runs_seen": out.violating_runs,
            "violation": violation,
            "real_components": ["sea-query builders and the three backends (current /repo working tree)", "std Rc"],
            "simulated_components": ["operation scheduler", "SimIden (Iden)", "SimWriter (SqlWriter)", "SimIter (IntoIterator arguments)", "closures passed to apply/apply_if/conditions/exprs_mut_for_each"],
        },
        "assumptions": [
            "lineage replay uses the same sea-query code for builder calls and rendering: the comparison is differential in value operations, failed operations and interleaving only",
            "sampling, not proof: a clean batch is evidence",
        ],
        "wall_s": wall,
        "violations": if exit == 1 { 1 } else { 0 },
    })
}
