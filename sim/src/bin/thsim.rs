//! thsim — the thread scenarios of C20 under shuttle's seeded schedulers.
//!
//!   thsim run --programs N --schedules K [--seed S] [--threads T] [--out FILE] [--replay-dir DIR]
//!   thsim replay FILE
//!
//! Each program (scenario) is generated from (seed, index) with the crate's own PRNG, outside
//! shuttle; shuttle then explores K schedules of it with RandomScheduler and K with PCT, each
//! seeded from the same integer. A failing execution records its own schedule (shuttle's
//! serialised form) next to the scenario: replay re-runs exactly that schedule.

use seasim::rng::{run_seed, Fnv, Rng};
use seasim::seams::YieldMode;
use seasim::thread_scn::*;
use shuttle::scheduler::{PctScheduler, RandomScheduler, ReplayScheduler};
use shuttle::{Config, FailurePersistence, MaxSteps, Runner};
use std::collections::BTreeSet;
use std::sync::atomic::{AtomicU64, AtomicUsize, Ordering};
use std::sync::{Arc, Mutex};

struct ShuttleRt;

struct ShQueue<T>(shuttle::sync::Mutex<std::collections::VecDeque<T>>);
impl<T: Send> TaskQueue<T> for ShQueue<T> {
    fn push(&self, t: T) {
        self.0.lock().unwrap().push_back(t);
    }
    fn pop(&self) -> Option<T> {
        self.0.lock().unwrap().pop_front()
    }
}

impl Rt for ShuttleRt {
    fn yield_mode() -> YieldMode {
        YieldMode::Shuttle
    }
    fn spawn<T: Send + 'static>(f: Box<dyn FnOnce() -> T + Send>) -> Joiner<T> {
        let h = shuttle::thread::spawn(f);
        Box::new(move || h.join().expect("HARNESS: actor thread panicked"))
    }
    fn chan<T: Send + 'static>() -> (Tx<T>, Rx<T>) {
        let (tx, rx) = shuttle::sync::mpsc::channel::<T>();
        (
            Box::new(move |t| {
                let _ = tx.send(t);
            }),
            Box::new(move || rx.recv().ok()),
        )
    }
    fn queue<T: Send + 'static>() -> Arc<dyn TaskQueue<T>> {
        Arc::new(ShQueue(shuttle::sync::Mutex::new(Default::default())))
    }
    fn idle() {
        shuttle::thread::yield_now();
    }
}

#[derive(Clone, Debug, serde::Serialize, serde::Deserialize)]
struct ThTrace {
    property: String,
    check: String,
    mode: String,
    seed: u64,
    program: u64,
    scheduler: String,
    schedule: String,
    scenario: Scenario,
    findings: Vec<Finding>,
    sequential_baseline_clean: bool,
}

fn arg(args: &[String], name: &str) -> Option<String> {
    args.iter().position(|a| a == name).and_then(|i| args.get(i + 1).cloned())
}

fn config() -> Config {
    let mut c = Config::new();
    c.stack_size = 0x20_0000;
    c.failure_persistence = FailurePersistence::None;
    c.max_steps = MaxSteps::FailAfter(2_000_000);
    c.silence_warnings = true;
    c
}

struct Failure {
    findings: Vec<Finding>,
    schedule: String,
}

/// run `sc` under `runner`; the first failing execution is captured with its schedule
fn explore<S: shuttle::scheduler::Scheduler + 'static>(
    sc: &Scenario,
    sched: S,
    execs: &AtomicU64,
    inter: &Mutex<BTreeSet<u64>>,
) -> Result<(), Failure> {
    explore_mode(sc, sched, execs, inter, false)
}

fn explore_mode<S: shuttle::scheduler::Scheduler + 'static>(
    sc: &Scenario,
    sched: S,
    execs: &AtomicU64,
    inter: &Mutex<BTreeSet<u64>>,
    independent: bool,
) -> Result<(), Failure> {
    let failure: Arc<Mutex<Option<Failure>>> = Arc::new(Mutex::new(None));
    let f2 = failure.clone();
    let sc2 = sc.clone();
    let execs2: &'static AtomicU64 = unsafe { &*(execs as *const AtomicU64) };
    let inter2: &'static Mutex<BTreeSet<u64>> = unsafe { &*(inter as *const _) };
    let runner = Runner::new(sched, config());
    let r = std::panic::catch_unwind(std::panic::AssertUnwindSafe(|| {
        runner.run(move || {
            if f2.lock().unwrap().is_some() {
                return; // already failed in an earlier schedule: skip the rest cheaply
            }
            seasim::seams::set_in_shuttle(true);
            let findings = run_scenario_mode::<ShuttleRt>(&sc2, independent);
            seasim::seams::set_in_shuttle(false);
            execs2.fetch_add(1, Ordering::Relaxed);
            let schedule = shuttle_engine::runtime::execution::CurrentSchedule::get_schedule();
            let ser = shuttle_engine::scheduler::serialization::serialize_schedule(&schedule);
            let mut h = Fnv::default();
            h.str(&ser);
            inter2.lock().unwrap().insert(h.0);
            if !findings.is_empty() {
                *f2.lock().unwrap() = Some(Failure { findings, schedule: ser });
            }
        })
    }));
    seasim::seams::set_in_shuttle(false);
    if let Err(p) = r {
        let m = seasim::observe::panic_message(p);
        return Err(Failure {
            findings: vec![Finding {
                check: "harness".into(),
                detail: format!("shuttle run panicked: {}", m),
            }],
            schedule: String::new(),
        });
    }
    let taken = failure.lock().unwrap().take();
    match taken {
        Some(f) => Err(f),
        None => Ok(()),
    }
}

fn silence_hooks() {
    // shuttle installs (once) a panic hook that serialises a schedule on *every* panic, also the
    // ones our observations catch on purpose; trigger the installation, then replace it
    let r = Runner::new(RandomScheduler::new_from_seed(1, 1), config());
    r.run(|| {});
    let dbg = std::env::var("OPSIM_DEBUG_PANICS").is_ok();
    std::panic::set_hook(Box::new(move |info| {
        if dbg {
            eprintln!("panic: {}", info);
        }
    }));
}

fn main() {
    silence_hooks();
    let args: Vec<String> = std::env::args().collect();
    let code = match args.get(1).map(|s| s.as_str()) {
        Some("run") => cmd_run(&args),
        Some("replay") => cmd_replay(&args),
        _ => {
            eprintln!("usage: thsim run|replay");
            2
        }
    };
    std::process::exit(code);
}

fn cmd_replay(args: &[String]) -> i32 {
    let path = args.get(2).expect("usage: thsim replay FILE");
    let tr: ThTrace = serde_json::from_str(&std::fs::read_to_string(path).expect("read trace")).expect("parse trace");
    let execs = AtomicU64::new(0);
    let inter = Mutex::new(BTreeSet::new());
    // the schedule was captured when the main task finished, before the runtime's own epilogue
    let mut sched = ReplayScheduler::new_from_encoded(&tr.schedule);
    sched.set_allow_incomplete();
    let r = explore(&tr.scenario, sched, &execs, &inter);
    match r {
        Err(f) if f.findings.iter().any(|x| x.check != "harness") => {
            let same = f.findings == tr.findings;
            println!("replayed schedule of {} ({}): {} findings; identical to recorded: {}", tr.scenario.kind(), tr.scheduler, f.findings.len(), same);
            for x in &f.findings {
                println!("  {}: {}", x.check, x.detail);
            }
            println!("VIOLATION property=C20 replay={}", path);
            1
        }
        Err(f) => {
            eprintln!("HARNESS: {:?}", f.findings);
            2
        }
        Ok(()) => {
            println!("replay of {} did not violate anything on this tree", path);
            0
        }
    }
}

fn cmd_run(args: &[String]) -> i32 {
    let t0 = std::time::Instant::now();
    let programs: u64 = arg(args, "--programs").and_then(|s| s.parse().ok()).unwrap_or(200);
    let schedules: usize = arg(args, "--schedules").and_then(|s| s.parse().ok()).unwrap_or(20);
    let seed: u64 = arg(args, "--seed")
        .or_else(|| std::env::var("VERIF_SEED").ok())
        .and_then(|s| s.parse().ok())
        .unwrap_or(20240601);
    let threads: usize = arg(args, "--threads").and_then(|s| s.parse().ok()).unwrap_or(16);
    let replay_dir = arg(args, "--replay-dir").unwrap_or_else(|| "/verif/replays".into());
    let out_file = arg(args, "--out");
    let first_program: u64 = arg(args, "--first-program").and_then(|s| s.parse().ok()).unwrap_or(0);
    let progress_dir = arg(args, "--progress-dir");
    if let Some(d) = &progress_dir {
        std::fs::remove_dir_all(d).ok();
        std::fs::create_dir_all(d).ok();
    }
    let baseline_only = args.iter().any(|a| a == "--baseline-only");
    let small = args.iter().any(|a| a == "--small");
    let needs_sharing = AtomicU64::new(0);

    let next = AtomicU64::new(first_program);
    let programs = first_program + programs;
    let wid = AtomicU64::new(0);
    let execs = AtomicU64::new(0);
    let inter: Mutex<BTreeSet<u64>> = Mutex::new(BTreeSet::new());
    let kinds: Mutex<std::collections::BTreeMap<String, u64>> = Mutex::new(Default::default());
    let sigs: Mutex<BTreeSet<u64>> = Mutex::new(BTreeSet::new());
    let done = AtomicUsize::new(0);
    let first_fail: Mutex<Option<(u64, ThTrace)>> = Mutex::new(None);
    let harness: Mutex<Vec<String>> = Mutex::new(Vec::new());
    let samples: Mutex<Vec<serde_json::Value>> = Mutex::new(Vec::new());
    let not_schedule_dependent = AtomicU64::new(0);

    std::thread::scope(|sc| {
        for _ in 0..threads.max(1) {
            // same stack as the per-program threads, so that --baseline-only and exploration
            // cannot differ by stack depth
            let _worker = std::thread::Builder::new().stack_size(16 << 20).spawn_scoped(sc, || {
                silence_hooks_thread();
                let my = wid.fetch_add(1, Ordering::Relaxed);
                let mut progress = progress_dir.as_ref().and_then(|d| {
                    std::fs::OpenOptions::new().create(true).write(true).truncate(true).open(format!("{}/worker-{}", d, my)).ok()
                });
                loop {
                    if first_fail.lock().unwrap().is_some() {
                        break;
                    }
                    let i = next.fetch_add(1, Ordering::Relaxed);
                    if i >= programs {
                        break;
                    }
                    if let Some(f) = progress.as_mut() {
                        use std::io::{Seek, Write};
                        let _ = f.seek(std::io::SeekFrom::Start(0));
                        let _ = f.write_all(format!("{:020}\n", i).as_bytes());
                    }
                    let ps = run_seed(seed, i);
                    let mut r = Rng::new(ps);
                    let scn = gen_scenario(&mut r, small);
                    if baseline_only {
                        // thread-free execution only (used to classify a crash)
                        let base = seasim::observe::guarded(|| run_scenario::<SeqRt>(&scn));
                        if !matches!(&base, Ok(f) if f.is_empty()) {
                            not_schedule_dependent.fetch_add(1, Ordering::Relaxed);
                        }
                        done.fetch_add(1, Ordering::Relaxed);
                        continue;
                    }
                    // a fresh OS thread per program: per-thread state of the tree under test
                    // (thread_local!) never leaks from one program's executions into another's
                    let verdict = std::thread::scope(|s2| {
                        std::thread::Builder::new()
                            .stack_size(16 << 20)
                            .spawn_scoped(s2, || program_verdict(&scn, ps, schedules, &execs, &inter))
                            .expect("HARNESS: spawn program thread")
                            .join()
                    });
                    *kinds.lock().unwrap().entry(scn.kind().to_string()).or_insert(0) += 1;
                    {
                        let mut h = Fnv::default();
                        h.str(&serde_json::to_string(&scn).unwrap());
                        sigs.lock().unwrap().insert(h.0);
                    }
                    if i < 2 {
                        samples.lock().unwrap().push(serde_json::json!({"program": i, "scenario": scn}));
                    }
                    let fail: Option<(String, Failure)> = match verdict {
                        Ok(Verdict::BaselineFails) => {
                            not_schedule_dependent.fetch_add(1, Ordering::Relaxed);
                            done.fetch_add(1, Ordering::Relaxed);
                            continue;
                        }
                        Ok(Verdict::Harness(m)) => {
                            harness.lock().unwrap().push(format!("program {}: {}", i, m));
                            done.fetch_add(1, Ordering::Relaxed);
                            continue;
                        }
                        Ok(Verdict::Explored(f)) => f,
                        Err(p) => {
                            harness.lock().unwrap().push(format!("program {} thread panicked: {}", i, seasim::observe::panic_message(p)));
                            done.fetch_add(1, Ordering::Relaxed);
                            continue;
                        }
                    };
                    // Does the failure need structure shared between a clone and its source? Then it is
                    // a value-operation matter (C15: "later changes to either never show in the
                    // other"), reachable on one thread, and is not reported here.
                    let fail = match fail {
                        Some((sched, f)) if f.findings.iter().any(|x| x.check != "harness") => {
                            let depth = 1 + (ps % 3) as usize;
                            let still = explore_mode(&scn, RandomScheduler::new_from_seed(ps, schedules * 4), &execs, &inter, true).is_err()
                                || explore_mode(&scn, PctScheduler::new_from_seed(ps, depth, schedules * 4), &execs, &inter, true).is_err();
                            if still {
                                Some((sched, f))
                            } else {
                                needs_sharing.fetch_add(1, Ordering::Relaxed);
                                None
                            }
                        }
                        other => other,
                    };
                    if let Some((sched, f)) = fail {
                        // minimise: smaller scenarios, schedules re-explored for each candidate
                        let (scn, sched, f) = if f.findings.iter().all(|x| x.check == "harness") {
                            (scn, sched, f)
                        } else {
                            minimise(scn, sched, f, ps, schedules, &execs, &inter)
                        };
                        if f.findings.iter().all(|x| x.check == "harness") {
                            harness.lock().unwrap().push(format!("program {}: {:?}", i, f.findings));
                        } else {
                            let tr = ThTrace {
                                property: "C20".into(),
                                check: f.findings[0].check.clone(),
                                mode: "shuttle".into(),
                                seed,
                                program: i,
                                scheduler: sched,
                                schedule: f.schedule,
                                scenario: scn,
                                findings: f.findings,
                                sequential_baseline_clean: true,
                            };
                            let mut g = first_fail.lock().unwrap();
                            if g.as_ref().map(|(j, _)| i < *j).unwrap_or(true) {
                                *g = Some((i, tr));
                            }
                        }
                    }
                    done.fetch_add(1, Ordering::Relaxed);
                }
            });
        }
    });

    let mut exit = 0;
    let mut violation = serde_json::Value::Null;
    if let Some((i, tr)) = first_fail.lock().unwrap().take() {
        let dir = format!("{}/C20", replay_dir);
        std::fs::create_dir_all(&dir).ok();
        let path = format!("{}/shuttle-{}-{}.json", dir, seed, i);
        std::fs::write(&path, serde_json::to_string_pretty(&tr).unwrap()).ok();
        println!("violation in program {} ({}, scheduler {}): {} — {}", i, tr.scenario.kind(), tr.scheduler, tr.findings[0].check, tr.findings[0].detail);
        println!("VIOLATION property=C20 replay={}", path);
        violation = serde_json::json!({"program": i, "check": tr.findings[0].check, "detail": tr.findings[0].detail, "replay": path});
        exit = 1;
    }
    let harness = harness.into_inner().unwrap();
    if exit == 0 && !harness.is_empty() {
        eprintln!("HARNESS: {} ({} harness errors)", harness[0], harness.len());
        exit = 2;
    }
    let wall = t0.elapsed().as_secs_f64();
    let summary = serde_json::json!({
        "programs": done.load(Ordering::Relaxed),
        "schedules_per_program_per_scheduler": schedules,
        "executions": execs.load(Ordering::Relaxed),
        "distinct_programs": sigs.lock().unwrap().len(),
        "distinct_interleavings": inter.lock().unwrap().len(),
        "schedule_set_hash": format!("{:016x}", inter.lock().unwrap().iter().fold(0u64, |a, x| a.rotate_left(5) ^ x)),
        "interleaving_measure": "distinct serialised shuttle schedules (task choice at every scheduling point)",
        "scenario_kinds": *kinds.lock().unwrap(),
        "programs_failing_without_threads": not_schedule_dependent.load(Ordering::Relaxed),
        "programs_failing_only_with_clone_sharing": needs_sharing.load(Ordering::Relaxed),
        "harness_errors": harness.len(),
        "violation": violation,
        "samples": *samples.lock().unwrap(),
        "wall_s": wall,
        "executions_per_hour": if wall > 0.0 { (execs.load(Ordering::Relaxed) as f64 / wall * 3600.0) as u64 } else { 0 },
    });
    if let Some(f) = out_file {
        std::fs::write(f, serde_json::to_string_pretty(&summary).unwrap()).ok();
    }
    println!(
        "{} programs, {} executions, {} distinct schedules, {:.1}s; {} programs fail even without threads, {} only when a clone shares structure with its source (not C20 matters)",
        done.load(Ordering::Relaxed),
        execs.load(Ordering::Relaxed),
        inter.lock().unwrap().len(),
        wall,
        not_schedule_dependent.load(Ordering::Relaxed),
        needs_sharing.load(Ordering::Relaxed)
    );
    exit
}

fn silence_hooks_thread() {}

enum Verdict {
    BaselineFails,
    Harness(String),
    Explored(Option<(String, Failure)>),
}

/// thread-free baseline, then Random and PCT exploration of one program (on the calling thread)
fn program_verdict(scn: &Scenario, ps: u64, schedules: usize, execs: &AtomicU64, inter: &Mutex<BTreeSet<u64>>) -> Verdict {
    // schedule-free baseline first: a failure here is not a threading matter
    let base = seasim::observe::guarded(|| run_scenario::<SeqRt>(scn));
    match &base {
        Ok(f) if f.is_empty() => {}
        Ok(f) if f.iter().all(|x| x.check != "harness") => return Verdict::BaselineFails,
        other => return Verdict::Harness(format!("sequential baseline: {:?}", other)),
    }
    if let Err(f) = explore(scn, RandomScheduler::new_from_seed(ps, schedules), execs, inter) {
        return Verdict::Explored(Some(("random".into(), f)));
    }
    let depth = 1 + (ps % 3) as usize;
    if let Err(f) = explore(scn, PctScheduler::new_from_seed(ps, depth, schedules), execs, inter) {
        return Verdict::Explored(Some((format!("pct{}", depth), f)));
    }
    Verdict::Explored(None)
}

fn try_fail(sc: &Scenario, ps: u64, schedules: usize, execs: &AtomicU64, inter: &Mutex<BTreeSet<u64>>) -> Option<(String, Failure)> {
    // only scenarios that still hold without threads are candidates
    let base = seasim::observe::guarded(|| run_scenario::<SeqRt>(sc));
    if !matches!(&base, Ok(f) if f.is_empty()) {
        return None;
    }
    if let Err(f) = explore(sc, RandomScheduler::new_from_seed(ps, schedules * 2), execs, inter) {
        return Some(("random".into(), f));
    }
    let depth = 1 + (ps % 3) as usize;
    if let Err(f) = explore(sc, PctScheduler::new_from_seed(ps, depth, schedules * 2), execs, inter) {
        return Some((format!("pct{}", depth), f));
    }
    None
}

fn minimise(
    mut sc: Scenario,
    mut sched: String,
    mut fail: Failure,
    ps: u64,
    schedules: usize,
    execs: &AtomicU64,
    inter: &Mutex<BTreeSet<u64>>,
) -> (Scenario, String, Failure) {
    let check = fail.findings[0].check.clone();
    let mut budget = 400;
    loop {
        let mut progressed = false;
        for cand in shrink_candidates(&sc) {
            if budget == 0 {
                return (sc, sched, fail);
            }
            budget -= 1;
            if let Some((s2, f2)) = try_fail(&cand, ps, schedules, execs, inter) {
                if f2.findings.iter().any(|x| x.check == check) {
                    sc = cand;
                    sched = s2;
                    fail = f2;
                    progressed = true;
                    break;
                }
            }
        }
        if !progressed {
            return (sc, sched, fail);
        }
    }
}
