//! One integer decides everything: SplitMix64 seeding + xoshiro256** stream.
//! No clock, no OS entropy, no hash-map iteration order anywhere in the crate.

#[derive(Clone, Debug)]
pub struct Rng {
    s: [u64; 4],
    pub draws: u64,
    /// swarm knob carried with the stream (and into forks): when > 0, most identifiers of this
    /// run come from a pool of that many names, so that name coincidences between clauses
    /// (the same column in DISTINCT ON and ORDER BY, in the FROM list and the lock's OF list …)
    /// are common in some runs instead of rare in all
    pub name_pool: u8,
}

pub fn splitmix64(x: &mut u64) -> u64 {
    *x = x.wrapping_add(0x9E37_79B9_7F4A_7C15);
    let mut z = *x;
    z = (z ^ (z >> 30)).wrapping_mul(0xBF58_476D_1CE4_E5B9);
    z = (z ^ (z >> 27)).wrapping_mul(0x94D0_49BB_1331_11EB);
    z ^ (z >> 31)
}

/// Seed of run `i` of a batch started with `seed`; independent of worker count.
pub fn run_seed(seed: u64, i: u64) -> u64 {
    let mut x = seed ^ i.wrapping_mul(0xD6E8_FEB8_6659_FD93).rotate_left(17);
    let a = splitmix64(&mut x);
    let b = splitmix64(&mut x);
    a ^ b.rotate_left(32)
}

impl Rng {
    pub fn new(seed: u64) -> Self {
        let mut x = seed;
        let s = [
            splitmix64(&mut x),
            splitmix64(&mut x),
            splitmix64(&mut x),
            splitmix64(&mut x),
        ];
        Rng { s, draws: 0, name_pool: 0 }
    }
    pub fn next(&mut self) -> u64 {
        self.draws += 1;
        let r = self.s[1].wrapping_mul(5).rotate_left(7).wrapping_mul(9);
        let t = self.s[1] << 17;
        self.s[2] ^= self.s[0];
        self.s[3] ^= self.s[1];
        self.s[1] ^= self.s[2];
        self.s[0] ^= self.s[3];
        self.s[2] ^= t;
        self.s[3] = self.s[3].rotate_left(45);
        r
    }
    /// uniform in 0..n (n > 0)
    pub fn below(&mut self, n: usize) -> usize {
        debug_assert!(n > 0);
        ((self.next() >> 11) % (n as u64)) as usize
    }
    /// uniform in lo..=hi
    pub fn range(&mut self, lo: usize, hi: usize) -> usize {
        lo + self.below(hi - lo + 1)
    }
    /// true with probability pct/100
    pub fn pct(&mut self, pct: u32) -> bool {
        (self.next() >> 11) % 100 < pct as u64
    }
    pub fn coin(&mut self) -> bool {
        self.next() & (1 << 20) != 0
    }
    pub fn pick<'a, T>(&mut self, xs: &'a [T]) -> &'a T {
        &xs[self.below(xs.len())]
    }
    /// weighted choice: returns index
    pub fn weighted(&mut self, ws: &[u32]) -> usize {
        let total: u64 = ws.iter().map(|w| *w as u64).sum();
        debug_assert!(total > 0);
        let mut r = (self.next() >> 11) % total;
        for (i, w) in ws.iter().enumerate() {
            if r < *w as u64 {
                return i;
            }
            r -= *w as u64;
        }
        ws.len() - 1
    }
    pub fn fork(&mut self) -> Rng {
        let mut f = Rng::new(self.next());
        f.name_pool = self.name_pool;
        f
    }
}

/// FNV-1a 64, used for signatures / interleaving hashes (stable across processes).
#[derive(Clone, Copy)]
pub struct Fnv(pub u64);
impl Default for Fnv {
    fn default() -> Self {
        Fnv(0xcbf2_9ce4_8422_2325)
    }
}
impl Fnv {
    pub fn byte(&mut self, b: u8) {
        self.0 ^= b as u64;
        self.0 = self.0.wrapping_mul(0x0000_0100_0000_01B3);
    }
    pub fn bytes(&mut self, bs: &[u8]) {
        for b in bs {
            self.byte(*b);
        }
    }
    pub fn u64(&mut self, x: u64) {
        self.bytes(&x.to_le_bytes());
    }
    pub fn str(&mut self, s: &str) {
        self.bytes(s.as_bytes());
        self.byte(0xff);
    }
}
