//! Observations: every way a caller can look at a builder value without changing it.
//! An observation result is `Ok(text)` or `Panicked(message)`; both are compared verbatim between
//! the live handle and its lineage replay (which runs the same renderer, so rendering itself is
//! not what is being judged — the value operations, failed operations and interleavings are).

use crate::seams::{SimIden, SimWriter};
use crate::stmt::{Family, Stmt};
use sea_query::*;
use serde::{Deserialize, Serialize};
use std::panic::{catch_unwind, AssertUnwindSafe};

#[derive(Clone, Copy, Debug, PartialEq, Eq, Serialize, Deserialize)]
pub enum Backend {
    Mysql,
    Pg,
    Sqlite,
}

pub const BACKENDS: [Backend; 3] = [Backend::Mysql, Backend::Pg, Backend::Sqlite];

#[derive(Clone, Copy, Debug, PartialEq, Eq, Serialize, Deserialize)]
pub enum Sink {
    Str,
    Values,
    Sim,
}

#[derive(Clone, Copy, Debug, PartialEq, Eq, Serialize, Deserialize)]
pub enum Entry {
    ToString,
    Build,
    BuildAny,
    /// build_collect* family: (sink, through `&dyn QueryBuilder`, `_into` variant, sink pre-used)
    Collect { sink: Sink, any: bool, into: bool, preused: bool },
}

#[derive(Clone, Debug, PartialEq, Serialize, Deserialize)]
pub struct ObsSpec {
    pub backend: Backend,
    pub entry: Entry,
    /// fail the k-th write of a `Sink::Sim` sink
    pub writer_fail_in: Option<u64>,
}

#[derive(Clone, Debug, PartialEq)]
pub struct ObsResult {
    pub out: Result<String, String>,
    /// what a failing SimWriter had accepted before the fault
    pub partial: Option<String>,
}

pub fn panic_message(p: Box<dyn std::any::Any + Send>) -> String {
    if let Some(s) = p.downcast_ref::<&str>() {
        s.to_string()
    } else if let Some(s) = p.downcast_ref::<String>() {
        s.clone()
    } else {
        "<non-string panic>".to_string()
    }
}

pub fn guarded<R>(f: impl FnOnce() -> R) -> Result<R, String> {
    catch_unwind(AssertUnwindSafe(f)).map_err(panic_message)
}

fn plain(n: &str) -> SimIden {
    SimIden {
        name: n.to_string(),
        live: false,
    }
}

/// the renderable statement an observation of `s` goes through
enum Host {
    Query(Box<dyn QueryStatementBuilder>),
    Schema(SchemaHost),
    DebugOnly(String),
}

enum SchemaHost {
    TableCreate(TableCreateStatement),
    TableAlter(TableAlterStatement),
    TableDrop(TableDropStatement),
    TableRename(TableRenameStatement),
    TableTruncate(TableTruncateStatement),
    IndexCreate(IndexCreateStatement),
    IndexDrop(IndexDropStatement),
    FkCreate(ForeignKeyCreateStatement),
    FkDrop(ForeignKeyDropStatement),
}

fn host_of(s: &Stmt) -> Host {
    match s {
        Stmt::Select(x) => Host::Query(Box::new(x.clone())),
        Stmt::Update(x) => Host::Query(Box::new(x.clone())),
        Stmt::Delete(x) => Host::Query(Box::new(x.clone())),
        Stmt::Insert(x) => Host::Query(Box::new(x.clone())),
        Stmt::WithQuery(x) => Host::Query(Box::new(x.clone())),
        Stmt::Window(w) => {
            let mut q = SelectStatement::new();
            q.expr_window(SimpleExpr::Column(plain("x").into_column_ref()), w.clone());
            Host::Query(Box::new(q))
        }
        Stmt::OnConflict(oc) => {
            let mut q = InsertStatement::new();
            q.into_table(plain("t"))
                .columns([plain("c")])
                .values_panic([SimpleExpr::Value(Value::Int(Some(1)))])
                .on_conflict(oc.clone());
            Host::Query(Box::new(q))
        }
        Stmt::WithClause(w) => {
            let mut q = SelectStatement::new();
            q.column(Asterisk).from(plain("t"));
            Host::Query(Box::new(w.clone().query(q)))
        }
        Stmt::Cte(c) => {
            let mut q = SelectStatement::new();
            q.column(Asterisk).from(plain("t"));
            let mut w = WithClause::new();
            w.cte(c.clone());
            Host::Query(Box::new(w.query(q)))
        }
        Stmt::TableCreate(x) => Host::Schema(SchemaHost::TableCreate(x.clone())),
        Stmt::TableAlter(x) => Host::Schema(SchemaHost::TableAlter(x.clone())),
        Stmt::TableDrop(x) => Host::Schema(SchemaHost::TableDrop(x.clone())),
        Stmt::TableRename(x) => Host::Schema(SchemaHost::TableRename(x.clone())),
        Stmt::TableTruncate(x) => Host::Schema(SchemaHost::TableTruncate(x.clone())),
        Stmt::IndexCreate(x) => Host::Schema(SchemaHost::IndexCreate(x.clone())),
        Stmt::IndexDrop(x) => Host::Schema(SchemaHost::IndexDrop(x.clone())),
        Stmt::FkCreate(x) => Host::Schema(SchemaHost::FkCreate(x.clone())),
        Stmt::FkDrop(x) => Host::Schema(SchemaHost::FkDrop(x.clone())),
        Stmt::ColumnDef(c) => {
            let mut t = TableCreateStatement::new();
            t.table(plain("t")).col(c.clone());
            Host::Schema(SchemaHost::TableCreate(t))
        }
        Stmt::TableFk(f) => {
            let mut t = TableAlterStatement::new();
            t.table(plain("t")).add_foreign_key(f);
            Host::Schema(SchemaHost::TableAlter(t))
        }
        Stmt::TableIndex(i) => Host::DebugOnly(format!("{:?} {:?}", i.get_column_names(), i)),
        // postgres-only statements: rendered by the postgres builder whatever backend was asked
        Stmt::TypeCreate(x) => Host::DebugOnly(format!(
            "{} | {}",
            x.to_string(PostgresQueryBuilder),
            x.build_ref(&PostgresQueryBuilder)
        )),
        Stmt::TypeDrop(x) => Host::DebugOnly(format!(
            "{} | {}",
            x.to_string(PostgresQueryBuilder),
            x.build_ref(&PostgresQueryBuilder)
        )),
        Stmt::TypeAlter(x) => Host::DebugOnly(format!(
            "{} | {}",
            x.to_string(PostgresQueryBuilder),
            x.build_ref(&PostgresQueryBuilder)
        )),
        Stmt::ExtCreate(x) => Host::DebugOnly(format!(
            "{} | {}",
            x.to_string(PostgresQueryBuilder),
            x.build_ref(&PostgresQueryBuilder)
        )),
        Stmt::ExtDrop(x) => Host::DebugOnly(format!(
            "{} | {}",
            x.to_string(PostgresQueryBuilder),
            x.build_ref(&PostgresQueryBuilder)
        )),
    }
}

macro_rules! with_backend {
    ($b:expr, $qb:ident => $e:expr) => {
        match $b {
            Backend::Mysql => {
                let $qb = MysqlQueryBuilder;
                $e
            }
            Backend::Pg => {
                let $qb = PostgresQueryBuilder;
                $e
            }
            Backend::Sqlite => {
                let $qb = SqliteQueryBuilder;
                $e
            }
        }
    };
}

macro_rules! each_schema {
    ($s:expr, $x:ident => $e:expr) => {
        match $s {
            SchemaHost::TableCreate($x) => $e,
            SchemaHost::TableAlter($x) => $e,
            SchemaHost::TableDrop($x) => $e,
            SchemaHost::TableRename($x) => $e,
            SchemaHost::TableTruncate($x) => $e,
            SchemaHost::IndexCreate($x) => $e,
            SchemaHost::IndexDrop($x) => $e,
            SchemaHost::FkCreate($x) => $e,
            SchemaHost::FkDrop($x) => $e,
        }
    };
}

fn fmt_built(sql: String, values: &Values) -> String {
    format!("{} -- {:?}", sql, values)
}

/// the generic-method entry points need the concrete statement type
fn query_generic(s: &Stmt, o: &ObsSpec, live: bool, partial: &mut Option<String>) -> Option<String> {
    macro_rules! run {
        ($x:expr) => {{
            let x = $x;
            with_backend!(o.backend, qb => match o.entry {
                Entry::ToString => x.to_string(qb),
                Entry::Build => {
                    let (sql, v) = x.build(qb);
                    fmt_built(sql, &v)
                }
                Entry::Collect { sink, any: false, into, preused } => match sink {
                    Sink::Str => {
                        let mut w = if preused { String::from("/*pre*/ ") } else { String::new() };
                        if into {
                            x.build_collect_into(qb, &mut w);
                            w
                        } else {
                            x.build_collect(qb, &mut w)
                        }
                    }
                    Sink::Values => {
                        let (p, n) = qb.placeholder();
                        let mut w = SqlWriterValues::new(p, n);
                        if preused {
                            w.push_param(Value::Int(Some(-1)), &qb);
                        }
                        let text = if into {
                            x.build_collect_into(qb, &mut w);
                            w.to_string()
                        } else {
                            x.build_collect(qb, &mut w)
                        };
                        let (sql, v) = w.into_parts();
                        format!("{} || {}", text, fmt_built(sql, &v))
                    }
                    Sink::Sim => {
                        let mut w = SimWriter::new(&qb, live, o.writer_fail_in);
                        if preused {
                            w.text.push_str("/*pre*/ ");
                        }
                        let r = guarded(|| {
                            if into {
                                x.build_collect_into(qb, &mut w);
                                w.to_string()
                            } else {
                                x.build_collect(qb, &mut w)
                            }
                        });
                        match r {
                            Ok(text) => format!("{} || {:?}", text, w.params),
                            Err(m) => {
                                *partial = Some(w.text.clone());
                                std::panic::resume_unwind(Box::new(m));
                            }
                        }
                    }
                },
                _ => unreachable!(),
            })
        }};
    }
    Some(match s {
        Stmt::Select(x) => run!(x),
        Stmt::Update(x) => run!(x),
        Stmt::Delete(x) => run!(x),
        Stmt::Insert(x) => run!(x),
        Stmt::WithQuery(x) => run!(x),
        _ => return None,
    })
}

fn query_dyn(q: &dyn QueryStatementBuilder, o: &ObsSpec, live: bool, partial: &mut Option<String>) -> String {
    with_backend!(o.backend, qb => {
        let qbd: &dyn QueryBuilder = &qb;
        match o.entry {
            Entry::ToString => {
                let mut w = String::new();
                q.build_collect_any(qbd, &mut w)
            }
            Entry::Build | Entry::BuildAny => {
                let (sql, v) = q.build_any(qbd);
                fmt_built(sql, &v)
            }
            Entry::Collect { sink, into, preused, .. } => match sink {
                Sink::Str => {
                    let mut w = if preused { String::from("/*pre*/ ") } else { String::new() };
                    if into {
                        q.build_collect_any_into(qbd, &mut w);
                        w
                    } else {
                        q.build_collect_any(qbd, &mut w)
                    }
                }
                Sink::Values => {
                    let (p, n) = qbd.placeholder();
                    let mut w = SqlWriterValues::new(p, n);
                    if preused {
                        w.push_param(Value::Int(Some(-1)), qbd);
                    }
                    let text = if into {
                        q.build_collect_any_into(qbd, &mut w);
                        w.to_string()
                    } else {
                        q.build_collect_any(qbd, &mut w)
                    };
                    let (sql, v) = w.into_parts();
                    format!("{} || {}", text, fmt_built(sql, &v))
                }
                Sink::Sim => {
                    let mut w = SimWriter::new(qbd, live, o.writer_fail_in);
                    if preused {
                        w.text.push_str("/*pre*/ ");
                    }
                    let r = guarded(|| {
                        if into {
                            q.build_collect_any_into(qbd, &mut w);
                            w.to_string()
                        } else {
                            q.build_collect_any(qbd, &mut w)
                        }
                    });
                    match r {
                        Ok(text) => format!("{} || {:?}", text, w.params),
                        Err(m) => {
                            *partial = Some(w.text.clone());
                            std::panic::resume_unwind(Box::new(m));
                        }
                    }
                }
            },
        }
    })
}

fn schema_render(h: &SchemaHost, o: &ObsSpec) -> String {
    with_backend!(o.backend, qb => match o.entry {
        Entry::ToString => each_schema!(h, x => x.to_string(qb)),
        Entry::Build => each_schema!(h, x => x.build(qb)),
        _ => each_schema!(h, x => x.build_any(&qb)),
    })
}

/// One observation of `s`. Never mutates `s` (it only has `&`).
pub fn observe_one(s: &Stmt, o: &ObsSpec, live: bool) -> ObsResult {
    let mut partial = None;
    let out = guarded(|| {
        // entry points that are generic over the backend need the concrete type
        let generic = matches!(
            o.entry,
            Entry::ToString | Entry::Build | Entry::Collect { any: false, .. }
        );
        if generic {
            if let Some(r) = query_generic(s, o, live, &mut partial) {
                return r;
            }
        }
        match host_of(s) {
            Host::Query(q) => query_dyn(q.as_ref(), o, live, &mut partial),
            Host::Schema(h) => schema_render(&h, o),
            Host::DebugOnly(d) => d,
        }
    });
    ObsResult { out, partial }
}

pub fn res_str(r: &Result<String, String>) -> String {
    match r {
        Ok(s) => format!("OK:{}", s),
        Err(m) => format!("PANIC:{}", m),
    }
}

/// The canonical observation vector: to_string + build on the three backends.
pub fn canon(s: &Stmt, live: bool) -> Vec<String> {
    let mut v = Vec::with_capacity(7);
    for b in BACKENDS {
        for e in [Entry::ToString, Entry::Build] {
            let o = ObsSpec {
                backend: b,
                entry: e,
                writer_fail_in: None,
            };
            v.push(res_str(&observe_one(s, &o, live).out));
        }
    }
    // Debug text is compared only where it is the *only* information available: families without
    // renderer and PartialEq (TableIndex), and states of families without PartialEq that no
    // backend can render (every rendering panicked). Elsewhere equality is `==` plus rendering, as the properties say:
    // Debug may legitimately show internals (spare buffer contents, caches) invisible to both.
    let unrenderable = v.iter().all(|x| x.starts_with("PANIC:"));
    if s.family() == Family::TableIndex || (unrenderable && !s.family().has_eq()) {
        v.push(res_str(&guarded(|| s.debug())));
    } else {
        v.push(String::from("-"));
    }
    v
}

pub fn family_is_renderable(f: Family) -> bool {
    f != Family::TableIndex
}
