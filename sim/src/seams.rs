//! Caller-side seams owned by the simulator. Every one of them is an *existing public extension
//! point* of sea-query (no hook in /repo):
//!   * `SimIden`   — `impl Iden`: sea-query calls `unquoted()` on render / Debug / `==`
//!   * `SimWriter` — `impl SqlWriter`: the sink of `build_collect*`
//!   * `SimIter`   — the `IntoIterator` argument of builder methods
//! Each call into a *live* seam is a scheduling point (cooperative nested observation, shuttle
//! `thread::sleep(0)`, or `std::thread::yield_now` under Miri) and a fault point.

use sea_query::{Iden, QueryBuilder, SqlWriter, Value};
use std::cell::RefCell;
use std::fmt;

#[derive(Clone, Copy, Debug, PartialEq, Eq)]
pub enum SeamKind {
    Iden = 0,
    Writer = 1,
    Iter = 2,
}

#[derive(Clone, Copy, Debug, PartialEq, Eq)]
pub enum YieldMode {
    None,
    Shuttle,
    Std,
}

pub const FAULT_IDEN: &str = "SIMFAULT iden panic";
pub const FAULT_ITER: &str = "SIMFAULT iter panic";

pub struct SeamState {
    pub calls: [u64; 3],
    /// panic when this many further live iden calls have happened (0 = next call)
    pub iden_panic_in: Option<u64>,
    /// run the nested action when this many further live seam calls have happened
    pub nested_in: Option<u64>,
    pub nested: Option<Box<dyn FnMut()>>,
    pub nested_fired: u64,
    pub yield_mode: YieldMode,
    pub faults_fired_iden: u64,
    /// order-sensitive hash of the seam-call sequence seen by this thread (interleaving measure)
    pub trace: u64,
}

impl Default for SeamState {
    fn default() -> Self {
        SeamState {
            calls: [0; 3],
            iden_panic_in: None,
            nested_in: None,
            nested: None,
            nested_fired: 0,
            yield_mode: YieldMode::None,
            faults_fired_iden: 0,
            trace: 0xcbf2_9ce4_8422_2325,
        }
    }
}

thread_local! {
    pub static SEAM: RefCell<SeamState> = RefCell::new(SeamState::default());
    static IN_SHUTTLE: std::cell::Cell<bool> = const { std::cell::Cell::new(false) };
}
#[cfg(feature = "shuttle-mode")]
shuttle::thread_local! {
    static SEAM_SH: RefCell<SeamState> = RefCell::new(SeamState::default());
}

/// all shuttle tasks of an execution share one OS thread: inside an execution the per-task
/// (shuttle) thread-local is used, outside the per-OS-thread one
pub fn set_in_shuttle(b: bool) {
    IN_SHUTTLE.with(|c| c.set(b));
}

pub fn with_seam<R>(f: impl FnOnce(&mut SeamState) -> R) -> R {
    #[cfg(feature = "shuttle-mode")]
    if IN_SHUTTLE.with(|c| c.get()) {
        return SEAM_SH.with(|c| f(&mut c.borrow_mut()));
    }
    SEAM.with(|c| f(&mut c.borrow_mut()))
}

pub fn reset_seam(yield_mode: YieldMode) {
    with_seam(|s| {
        *s = SeamState::default();
        s.yield_mode = yield_mode;
    });
}

/// disarm every pending fault / nested action (called after each simulated operation)
pub fn disarm() {
    with_seam(|s| {
        s.iden_panic_in = None;
        s.nested_in = None;
        s.nested = None;
    });
}

fn do_yield(mode: YieldMode) {
    match mode {
        YieldMode::None => {}
        YieldMode::Std => std::thread::yield_now(),
        YieldMode::Shuttle => {
            #[cfg(feature = "shuttle-mode")]
            shuttle::thread::sleep(std::time::Duration::from_millis(0));
        }
    }
}

#[inline(never)]
pub fn seam_point(kind: SeamKind) {
    // a panic message that formats an identifier (lazily, inside the panic machinery) must not
    // hit a fault or a scheduling point: that would be a panic-in-panic abort of the harness
    if std::thread::panicking() {
        return;
    }
    let (panic_now, nested, mode) = with_seam(|s| {
        s.calls[kind as usize] += 1;
        s.trace = (s.trace ^ (kind as u64 + 1)).wrapping_mul(0x0000_0100_0000_01B3);
        let mut panic_now = false;
        if kind == SeamKind::Iden {
            if let Some(n) = s.iden_panic_in {
                if n == 0 {
                    s.iden_panic_in = None;
                    s.faults_fired_iden += 1;
                    panic_now = true;
                } else {
                    s.iden_panic_in = Some(n - 1);
                }
            }
        }
        let mut nested = None;
        if !panic_now {
            if let Some(n) = s.nested_in {
                if n == 0 {
                    s.nested_in = None;
                    nested = s.nested.take();
                    if nested.is_some() {
                        s.nested_fired += 1;
                    }
                } else {
                    s.nested_in = Some(n - 1);
                }
            }
        }
        (panic_now, nested, s.yield_mode)
    });
    if panic_now {
        panic!("{}", FAULT_IDEN);
    }
    if let Some(mut f) = nested {
        // faults armed for the outer operation do not apply to the nested observer
        let saved = with_seam(|s| s.iden_panic_in.take());
        f();
        with_seam(|s| s.iden_panic_in = saved);
    }
    do_yield(mode);
}

// ---------------------------------------------------------------------------------------------

/// Identifier type of the simulator. `live == false` is the oracle's plain identifier.
pub struct SimIden {
    pub name: String,
    pub live: bool,
}

impl fmt::Debug for SimIden {
    fn fmt(&self, f: &mut fmt::Formatter<'_>) -> fmt::Result {
        write!(f, "SimIden({:?})", self.name)
    }
}

impl Iden for SimIden {
    fn unquoted(&self, s: &mut dyn fmt::Write) {
        if self.live {
            seam_point(SeamKind::Iden);
        }
        write!(s, "{}", self.name).unwrap();
    }
}

// ---------------------------------------------------------------------------------------------

#[derive(Clone, Debug, PartialEq)]
pub enum WEvent {
    Text(String),
    Param(String),
}

/// A caller-supplied SQL sink: records the event stream, can fail its k-th write.
#[derive(Debug)]
pub struct SimWriter {
    pub events: Vec<WEvent>,
    pub text: String,
    pub params: Vec<Value>,
    pub placeholder: String,
    pub numbered: bool,
    pub counter: usize,
    pub fail_in: Option<u64>,
    pub failed: bool,
    pub live: bool,
}

impl SimWriter {
    pub fn new(qb: &dyn QueryBuilder, live: bool, fail_in: Option<u64>) -> Self {
        let (p, n) = qb.placeholder();
        SimWriter {
            events: Vec::new(),
            text: String::new(),
            params: Vec::new(),
            placeholder: p.to_string(),
            numbered: n,
            counter: 0,
            fail_in,
            failed: false,
            live,
        }
    }
}

impl fmt::Write for SimWriter {
    fn write_str(&mut self, s: &str) -> fmt::Result {
        if self.live {
            seam_point(SeamKind::Writer);
        }
        if let Some(n) = self.fail_in {
            if n == 0 {
                self.fail_in = None;
                self.failed = true;
                return Err(fmt::Error);
            }
            self.fail_in = Some(n - 1);
        }
        self.text.push_str(s);
        self.events.push(WEvent::Text(s.to_string()));
        Ok(())
    }
}

impl fmt::Display for SimWriter {
    fn fmt(&self, f: &mut fmt::Formatter<'_>) -> fmt::Result {
        f.write_str(&self.text)
    }
}

impl SqlWriter for SimWriter {
    fn push_param(&mut self, value: Value, _: &dyn QueryBuilder) {
        self.counter += 1;
        let ph = if self.numbered {
            format!("{}{}", self.placeholder, self.counter)
        } else {
            self.placeholder.clone()
        };
        // goes through the same faulting write path as text
        fmt::Write::write_str(self, &ph).unwrap();
        self.events.push(WEvent::Param(format!("{:?}", value)));
        self.params.push(value);
    }
    fn as_writer(&mut self) -> &mut dyn fmt::Write {
        self as _
    }
}

// ---------------------------------------------------------------------------------------------

#[derive(Clone, Copy, Debug, PartialEq, Eq, serde::Serialize, serde::Deserialize)]
pub enum IterB {
    Honest,
    /// honest but useless size_hint(): (0, None) — what `filter` / `flat_map` chains report
    LieLow,
    /// honest but inexact size_hint(): (n / 2, Some(n + 7)) — what `chain` + `filter` reports
    LieHigh,
    /// panics when asked for item number j (0-based), i.e. after j items were yielded
    PanicAfter(u8),
}

pub struct SimIter<T> {
    inner: std::vec::IntoIter<T>,
    b: IterB,
    yielded: usize,
    live: bool,
}

impl<T> SimIter<T> {
    pub fn new(v: Vec<T>, b: IterB, live: bool) -> Self {
        SimIter {
            inner: v.into_iter(),
            b,
            yielded: 0,
            live,
        }
    }
}

impl<T> Iterator for SimIter<T> {
    type Item = T;
    fn next(&mut self) -> Option<T> {
        if self.live {
            seam_point(SeamKind::Iter);
        }
        if let IterB::PanicAfter(j) = self.b {
            if self.yielded == j as usize {
                panic!("{}", FAULT_ITER);
            }
        }
        self.yielded += 1;
        self.inner.next()
    }
    fn size_hint(&self) -> (usize, Option<usize>) {
        let n = self.inner.len();
        match self.b {
            IterB::Honest | IterB::PanicAfter(_) => (n, Some(n)),
            IterB::LieLow => (0, None),
            IterB::LieHigh => (n / 2, Some(n + 7)),
        }
    }
}

// (deliberately not ExactSizeIterator: the loose hints would break its contract)
