//! Batches of seeded runs on worker threads, trace files, replay and minimisation.

use crate::exec::*;
use crate::model::*;
use crate::rng::{run_seed, Fnv, Rng};
use crate::seams;
use crate::workload::{draw_cfg, Workload};
use serde::{Deserialize, Serialize};
use std::collections::BTreeSet;
use std::sync::atomic::{AtomicBool, AtomicU64, Ordering};
use std::sync::Mutex;

#[derive(Clone, Debug, Serialize, Deserialize)]
pub struct Trace {
    pub property: String,
    pub check: String,
    pub mode: String,
    pub seed: u64,
    pub run: u64,
    pub cfg: Cfg,
    pub steps: Vec<Step>,
    pub violation: Violation,
    pub minimised: bool,
    pub original_steps: usize,
}

pub struct RunResult {
    pub cfg: Cfg,
    pub steps: Vec<Step>,
    pub stats: Stats,
    pub stop: Option<Stop>,
    pub hash: u64,
}

/// execute an explicit step list on a fresh simulator (replay path; no PRNG involved)
pub fn execute(cfg: &Cfg, steps: &[Step], known: &[String]) -> (Option<Stop>, Stats, u64) {
    let mut sim = Sim::new(cfg.clone(), known.to_vec());
    let mut stop = None;
    let verbose = std::env::var("OPSIM_VERBOSE").is_ok();
    for s in steps {
        let r = sim.exec(s);
        if verbose {
            eprintln!("step {}: {}", sim.step_no, serde_json::to_string(s).unwrap());
            let a = sim.arena.borrow();
            for (h, m) in &sim.model {
                if let Some(st) = a.get(*h) {
                    let c = crate::observe::canon(st, false);
                    eprintln!("    h{} {:?}{}: {}", h, m.fam, if m.residue { " (residue)" } else { "" }, c[2]);
                }
            }
        }
        if let Err(e) = r {
            stop = Some(e);
            break;
        }
    }
    if stop.is_none() {
        if let Err(e) = sim.check_all() {
            stop = Some(e);
        }
    }
    let h = finish_hash(&sim, steps, &stop);
    (stop, sim.stats.clone(), h)
}

fn finish_hash(sim: &Sim, steps: &[Step], stop: &Option<Stop>) -> u64 {
    let mut f = Fnv::default();
    f.str(&serde_json::to_string(steps).unwrap());
    f.u64(seams::with_seam(|s| s.trace));
    f.u64(seams::with_seam(|s| s.calls[0] + 3 * s.calls[1] + 7 * s.calls[2]));
    f.u64(sim.stats.steps);
    f.u64(sim.stats.skipped_steps);
    for (k, v) in &sim.stats.checks {
        f.str(k);
        f.u64(*v);
    }
    match stop {
        None => f.byte(0),
        Some(Stop::Violation(v)) => {
            f.byte(1);
            f.str(&v.check);
            f.str(&v.detail);
        }
        Some(Stop::Harness(m)) => {
            f.byte(2);
            f.str(m);
        }
    }
    f.0
}

/// one seeded run: draw the swarm configuration, then generate-and-execute step by step
pub fn run_one(prop: Prop, seed: u64, run: u64, known: &[String]) -> RunResult {
    let mut r = Rng::new(run_seed(seed, run));
    let cfg = draw_cfg(&mut r, prop);
    if r.pct(25) {
        r.name_pool = r.range(1, 4) as u8;
    }
    let mut sim = Sim::new(cfg.clone(), known.to_vec());
    let mut wl = Workload::new();
    let mut steps = Vec::with_capacity(cfg.n_steps);
    let mut stop = None;
    let mut budget = cfg.n_steps;
    while budget > 0 || !wl.queue.is_empty() {
        budget = budget.saturating_sub(1);
        if steps.len() >= 400 {
            break;
        }
        let st = wl.next_step(&mut r, &sim);
        if std::env::var("OPSIM_TRACE_STEPS").is_ok() {
            eprintln!("step {} {} q={} json={}", steps.len(), st.kind(), wl.queue.len(), serde_json::to_string(&st).map(|s| s.len()).unwrap_or(0));
        }
        steps.push(st);
        if let Err(e) = sim.exec(steps.last().unwrap()) {
            stop = Some(e);
            break;
        }
    }
    if stop.is_none() {
        if let Err(e) = sim.check_all() {
            stop = Some(e);
        }
    }
    let hash = finish_hash(&sim, &steps, &stop);
    RunResult {
        cfg,
        steps,
        stats: sim.stats.clone(),
        stop,
        hash,
    }
}

pub fn signature(steps: &[Step], with_handles: bool) -> u64 {
    let mut f = Fnv::default();
    for s in steps {
        f.str(&s.kind());
        if with_handles {
            let h = match s {
                Step::New { h, .. }
                | Step::Op { h, .. }
                | Step::Clear { h, .. }
                | Step::Drop { h }
                | Step::Observe { h, .. }
                | Step::ObserveDebug { h, .. } => *h,
                Step::Take { src, .. } | Step::Clone { src, .. } | Step::CloneFrom { src, .. } => *src,
                Step::ObserveEq { a, .. } => *a,
                Step::Check => 0,
            };
            f.u64(h as u64);
        }
    }
    f.0
}

pub fn same_violation(stop: &Option<Stop>, v: &Violation) -> bool {
    matches!(stop, Some(Stop::Violation(w)) if w.check == v.check && w.property == v.property)
}

/// delta debugging over the step list, while the same check of the same property still fails
pub fn minimise(cfg: &Cfg, steps: &[Step], v: &Violation, known: &[String]) -> (Vec<Step>, Violation) {
    let mut cur: Vec<Step> = steps.to_vec();
    let mut cur_v = v.clone();
    // cut everything after the failing step first
    if v.step + 1 < cur.len() {
        let cand: Vec<Step> = cur[..=v.step].to_vec();
        let (stop, _, _) = execute(cfg, &cand, known);
        if same_violation(&stop, v) {
            if let Some(Stop::Violation(w)) = stop {
                cur_v = w;
            }
            cur = cand;
        }
    }
    let mut chunk = (cur.len() / 2).max(1);
    let mut budget = 4000usize;
    loop {
        let mut i = 0;
        let mut removed_any = false;
        while i < cur.len() && budget > 0 {
            let end = (i + chunk).min(cur.len());
            let mut cand = cur.clone();
            cand.drain(i..end);
            budget -= 1;
            let (stop, _, _) = execute(cfg, &cand, known);
            if same_violation(&stop, v) {
                if let Some(Stop::Violation(w)) = stop {
                    cur_v = w;
                }
                cur = cand;
                removed_any = true;
            } else {
                i = end;
            }
        }
        if chunk == 1 && !removed_any {
            break;
        }
        if budget == 0 {
            break;
        }
        chunk = (chunk / 2).max(1);
    }
    // simplify what is left: drop fault placements and nested observations where not needed
    for i in 0..cur.len() {
        let simpler: Option<Step> = match &cur[i] {
            Step::Observe { h, obs, iden_panic_in, nested }
                if iden_panic_in.is_some() || nested.is_some() || obs.writer_fail_in.is_some() =>
            {
                let mut o = obs.clone();
                o.writer_fail_in = None;
                Some(Step::Observe {
                    h: *h,
                    obs: o,
                    iden_panic_in: None,
                    nested: None,
                })
            }
            Step::ObserveEq { a, b, iden_panic_in: Some(_) } => Some(Step::ObserveEq {
                a: *a,
                b: *b,
                iden_panic_in: None,
            }),
            Step::ObserveDebug { h, iden_panic_in: Some(_) } => Some(Step::ObserveDebug {
                h: *h,
                iden_panic_in: None,
            }),
            _ => None,
        };
        if let Some(s) = simpler {
            let mut cand = cur.clone();
            cand[i] = s;
            let (stop, _, _) = execute(cfg, &cand, known);
            if same_violation(&stop, v) {
                if let Some(Stop::Violation(w)) = stop {
                    cur_v = w;
                }
                cur = cand;
            }
        }
    }
    (cur, cur_v)
}

/// the same steps with every *injected fault* removed: no identifier panics, no failing sink, no
/// nested observation, no panicking row iterator. The properties say nothing about callers whose
/// identifiers, sinks or iterators blow up; a violation is reported only if it survives this.
pub fn strip_faults(steps: &[Step]) -> Vec<Step> {
    fn fix(v: &mut serde_json::Value) {
        match v {
            serde_json::Value::Object(m) => {
                if m.len() == 1 && m.contains_key("PanicAfter") {
                    *v = serde_json::Value::String("Honest".into());
                    return;
                }
                for (k, x) in m.iter_mut() {
                    if k == "iden_panic_in" || k == "writer_fail_in" || k == "nested" {
                        *x = serde_json::Value::Null;
                    } else {
                        fix(x);
                    }
                }
            }
            serde_json::Value::Array(a) => a.iter_mut().for_each(fix),
            _ => {}
        }
    }
    let mut v = serde_json::to_value(steps).expect("steps to json");
    fix(&mut v);
    serde_json::from_value(v).expect("steps from json")
}

#[derive(Default)]
pub struct BatchOut {
    pub runs: u64,
    pub stats: Stats,
    pub nontrivial_sigs: BTreeSet<u64>,
    pub interleavings: BTreeSet<u64>,
    pub samples: Vec<serde_json::Value>,
    pub first_violation: Option<(u64, RunResult)>,
    pub harness_errors: Vec<(u64, String)>,
    pub hashes: Vec<(u64, u64)>,
    pub violating_runs: u64,
}

pub const CHUNK: u64 = 64;

#[allow(clippy::too_many_arguments)]
fn run_chunk(
    prop: Prop,
    seed: u64,
    lo: u64,
    hi: u64,
    first_run: u64,
    known: &[String],
    keep_hashes: bool,
    stop_on_violation: bool,
    halt: &AtomicBool,
    worker: u64,
) -> BatchOut {
    let mut local = BatchOut::default();
    let mut progress = PROGRESS_DIR.get().and_then(|d| {
        std::fs::OpenOptions::new()
            .create(true)
            .write(true)
            .open(format!("{}/worker-{}", d, worker))
            .ok()
    });
    for i in lo..hi {
        if let Some(f) = progress.as_mut() {
            use std::io::{Seek, Write};
            let _ = f.seek(std::io::SeekFrom::Start(0));
            let _ = f.write_all(format!("{:020}\n", i).as_bytes());
        }
        let res = run_one(prop, seed, i, known);
        local.runs += 1;
        local.stats.merge(&res.stats);
        if keep_hashes {
            local.hashes.push((i, res.hash));
        }
        if nontrivial(prop, &res) {
            local.nontrivial_sigs.insert(signature(&res.steps, false));
        }
        local.interleavings.insert(signature(&res.steps, true));
        if i < first_run + 3 {
            local.samples.push(serde_json::json!({
                "run": i,
                "cfg": res.cfg,
                "steps": res.steps.iter().take(12).collect::<Vec<_>>(),
                "total_steps": res.steps.len(),
            }));
        }
        match &res.stop {
            None => {}
            Some(Stop::Harness(m)) => {
                local.harness_errors.push((i, m.clone()));
            }
            Some(Stop::Violation(_)) => {
                local.violating_runs += 1;
                if stop_on_violation {
                    halt.store(true, Ordering::Relaxed);
                }
                if local.first_violation.is_none() {
                    local.first_violation = Some((i, res));
                }
                if stop_on_violation {
                    break;
                }
            }
        }
    }
    local
}

fn nontrivial(prop: Prop, res: &RunResult) -> bool {
    match prop {
        Prop::C15 => res.steps.iter().any(|s| s.is_value_op()),
        Prop::C10 => res.stats.probes.get("failed_op_then_continue").copied().unwrap_or(0) > 0,
    }
}

/// where each worker records the run it is about to start (so that a crash of the process —
/// memory unsafety in the tree under test — can be traced to a run afterwards)
pub static PROGRESS_DIR: std::sync::OnceLock<String> = std::sync::OnceLock::new();

pub fn run_batch(
    prop: Prop,
    seed: u64,
    first_run: u64,
    runs: u64,
    threads: usize,
    known: &[String],
    keep_hashes: bool,
    stop_on_violation: bool,
) -> BatchOut {
    let end = first_run + runs;
    let halt = AtomicBool::new(false);
    let out = Mutex::new(BatchOut::default());
    let wid = AtomicU64::new(0);
    // Runs are handed out in chunks of CHUNK consecutive indices and every chunk executes on a
    // fresh OS thread: per-thread state that the tree under test might keep (thread_local!) can
    // then only flow between runs of one chunk, in index order — independent of the worker count.
    let first_chunk = first_run / CHUNK;
    let next_chunk = AtomicU64::new(first_chunk);
    std::thread::scope(|sc| {
        for _ in 0..threads.max(1) {
            sc.spawn(|| {
                let my = wid.fetch_add(1, Ordering::Relaxed);
                loop {
                    if halt.load(Ordering::Relaxed) {
                        break;
                    }
                    let c = next_chunk.fetch_add(1, Ordering::Relaxed);
                    let lo = (c * CHUNK).max(first_run);
                    let hi = ((c + 1) * CHUNK).min(end);
                    if lo >= end {
                        break;
                    }
                    let part = std::thread::scope(|s2| {
                        std::thread::Builder::new()
                            .stack_size(16 << 20)
                            .spawn_scoped(s2, || run_chunk(prop, seed, lo, hi, first_run, known, keep_hashes, stop_on_violation, &halt, my))
                            .expect("HARNESS: spawn chunk thread")
                            .join()
                    });
                    let local = match part {
                        Ok(l) => l,
                        Err(p) => {
                            let mut l = BatchOut::default();
                            l.harness_errors.push((lo, format!("chunk thread panicked: {}", crate::observe::panic_message(p))));
                            l
                        }
                    };
                    let mut g = out.lock().unwrap();
                    g.runs += local.runs;
                    g.stats.merge(&local.stats);
                    g.nontrivial_sigs.extend(local.nontrivial_sigs);
                    g.interleavings.extend(local.interleavings);
                    g.samples.extend(local.samples);
                    g.harness_errors.extend(local.harness_errors);
                    g.hashes.extend(local.hashes);
                    g.violating_runs += local.violating_runs;
                    if let Some((i, r)) = local.first_violation {
                        let better = match &g.first_violation {
                            Some((j, _)) => i < *j,
                            None => true,
                        };
                        if better {
                            g.first_violation = Some((i, r));
                        }
                    }
                }
            });
        }
    });
    let mut o = out.into_inner().unwrap();
    o.samples.sort_by_key(|s| s["run"].as_u64().unwrap_or(0));
    o.harness_errors.sort();
    o.hashes.sort();
    o
}
