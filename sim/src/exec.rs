//! The cooperative executor: runs explicit steps against real sea-query values and against the
//! lineage model, and evaluates the C10 / C15 checks after every step.

use crate::model::*;
use crate::observe::*;
use crate::ops::*;
use crate::seams::{self, IterB, YieldMode, FAULT_IDEN, FAULT_ITER};
use crate::spec::*;
use crate::stmt::*;
use sea_query::SelectStatement;
use std::cell::RefCell;
use std::collections::BTreeMap;
use std::rc::Rc;

#[derive(Clone, Debug, PartialEq, serde::Serialize, serde::Deserialize)]
pub struct Violation {
    pub property: String,
    pub check: String,
    pub step: usize,
    pub detail: String,
}

#[derive(Debug)]
pub enum Stop {
    Violation(Violation),
    Harness(String),
}

#[derive(Clone, Debug, Default)]
pub struct Stats {
    pub steps: u64,
    pub skipped_steps: u64,
    pub by_kind: BTreeMap<String, u64>,
    pub faults: BTreeMap<&'static str, u64>,
    pub probes: BTreeMap<&'static str, u64>,
    pub checks: BTreeMap<&'static str, u64>,
    /// C10 grid: (declared columns, row width, abort style) -> hits
    pub c10_grid: BTreeMap<(usize, usize, &'static str), u64>,
    pub known_findings: BTreeMap<String, u64>,
    pub value_op_positions: [u64; 10],
}

impl Stats {
    pub fn fault(&mut self, k: &'static str) {
        *self.faults.entry(k).or_insert(0) += 1;
    }
    pub fn probe(&mut self, k: &'static str) {
        *self.probes.entry(k).or_insert(0) += 1;
    }
    pub fn check(&mut self, k: &'static str) {
        *self.checks.entry(k).or_insert(0) += 1;
    }
    pub fn merge(&mut self, o: &Stats) {
        self.steps += o.steps;
        self.skipped_steps += o.skipped_steps;
        for (k, v) in &o.by_kind {
            *self.by_kind.entry(k.clone()).or_insert(0) += v;
        }
        for (k, v) in &o.faults {
            *self.faults.entry(k).or_insert(0) += v;
        }
        for (k, v) in &o.probes {
            *self.probes.entry(k).or_insert(0) += v;
        }
        for (k, v) in &o.checks {
            *self.checks.entry(k).or_insert(0) += v;
        }
        for (k, v) in &o.c10_grid {
            *self.c10_grid.entry(*k).or_insert(0) += v;
        }
        for (k, v) in &o.known_findings {
            *self.known_findings.entry(k.clone()).or_insert(0) += v;
        }
        for i in 0..10 {
            self.value_op_positions[i] += o.value_op_positions[i];
        }
    }
}

pub const KF_COLUMNS_REDECLARED: &str =
    "site=InsertStatement::columns shape=columns-redeclared-with-different-count-after-source";

pub struct Sim {
    pub cfg: Cfg,
    pub arena: Rc<RefCell<Arena>>,
    pub pool: RefCell<IdenPool>,
    pub model: Model,
    pub stats: Stats,
    pub fresh_canon: BTreeMap<Family, Rc<Vec<String>>>,
    /// known findings whose KNOWN-FINDING classification is enabled (from known_findings.txt)
    pub known: Vec<String>,
    pub step_no: usize,
}

fn diff(a: &[String], b: &[String]) -> String {
    for (i, (x, y)) in a.iter().zip(b.iter()).enumerate() {
        if x != y {
            return format!("observation[{}]: expected {:?} got {:?}", i, x, y);
        }
    }
    format!("observation count {} vs {}", a.len(), b.len())
}

impl Sim {
    pub fn new(cfg: Cfg, known: Vec<String>) -> Sim {
        seams::reset_seam(YieldMode::None);
        Sim {
            cfg,
            arena: Rc::new(RefCell::new(Arena::new())),
            pool: RefCell::new(IdenPool::new()),
            model: Model::new(),
            stats: Stats::default(),
            fresh_canon: BTreeMap::new(),
            known,
            step_no: 0,
        }
    }

    fn viol(&self, check: &'static str, detail: String) -> Stop {
        // a run belongs to one property: whatever it reports is about that property
        let property = if self.c10() { "C10" } else { "C15" };
        let check: &'static str = if self.c10() && !check.starts_with("c10.") { "c10.lineage" } else { check };
        Stop::Violation(Violation {
            property: property.to_string(),
            check: check.to_string(),
            step: self.step_no,
            detail,
        })
    }

    fn c10(&self) -> bool {
        self.cfg.prop == Prop::C10
    }

    // ---------------------------------------------------------------- model helpers

    pub fn expected(&mut self, h: HandleId) -> Result<Rc<Vec<String>>, Stop> {
        let m = self.model.get_mut(&h).expect("HARNESS: expected() of dead handle");
        if m.exp.is_none() {
            let log = m.log.clone();
            let rep = guarded(|| replay(&log))
                .map_err(|e| Stop::Harness(format!("lineage replay panicked: {}", e)))?;
            let c = canon(&rep, false);
            let m = self.model.get_mut(&h).unwrap();
            m.rep = Some(rep);
            m.exp = Some(Rc::new(c));
        }
        Ok(self.model[&h].exp.clone().unwrap())
    }

    fn ensure_rep(&mut self, h: HandleId) -> Result<(), Stop> {
        let m = self.model.get_mut(&h).expect("HARNESS: ensure_rep of dead handle");
        if m.rep.is_none() {
            let log = m.log.clone();
            let rep = guarded(|| replay(&log))
                .map_err(|e| Stop::Harness(format!("lineage replay panicked: {}", e)))?;
            self.model.get_mut(&h).unwrap().rep = Some(rep);
        }
        Ok(())
    }

    fn has_nan(&mut self, h: HandleId) -> bool {
        // with hashable-value (the `ts` build) NaN == NaN: equality is required unconditionally
        if cfg!(feature = "ts") || !self.cfg.allow_nan {
            return false;
        }
        let m = self.model.get_mut(&h).unwrap();
        if m.nan.is_none() {
            m.nan = Some(log_has_nan(&m.log));
        }
        m.nan.unwrap()
    }

    fn fresh_canon(&mut self, fam: Family) -> Rc<Vec<String>> {
        if let Some(c) = self.fresh_canon.get(&fam) {
            return c.clone();
        }
        let c = Rc::new(canon(&Stmt::fresh(fam), false));
        self.fresh_canon.insert(fam, c.clone());
        c
    }

    /// Second look before a rendering difference is blamed on a value: the lineage is replayed
    /// afresh and both sides are rendered again, now. If they agree this time, the earlier
    /// difference came from a renderer whose output is not a function of the statement (hidden
    /// global / per-thread state) — not from the values compared.
    fn rerender_differs(&mut self, log: &Log, v: &Stmt) -> Result<bool, Stop> {
        let fresh = guarded(|| replay(log))
            .map_err(|e| Stop::Harness(format!("lineage replay panicked: {}", e)))?;
        // ... or if one and the same value does not render the same way every time
        let (really, _) = Self::stable_difference(&fresh, &|| canon(v, true), &|e, g| e != g);
        if !really {
            self.stats.probe("rendering_depends_on_hidden_state_not_on_the_value");
        }
        Ok(really)
    }

    /// Both sides rendered three times each in the order e g g e e g (so that hidden state
    /// with a period of two renderings cannot look stable): the difference counts only if every
    /// rendering of the lineage replay is the same, every rendering of the value is the same,
    /// and the two differ. Returns (really differs, first rendering of the replay).
    fn stable_difference(
        fresh: &Stmt,
        value: &dyn Fn() -> Vec<String>,
        differs: &dyn Fn(&[String], &[String]) -> bool,
    ) -> (bool, Vec<String>) {
        let e1 = canon(fresh, false);
        let g1 = value();
        if !differs(&e1, &g1) {
            return (false, e1);
        }
        let g2 = value();
        let e2 = canon(fresh, false);
        let e3 = canon(fresh, false);
        let g3 = value();
        let stable = e1 == e2 && e2 == e3 && g1 == g2 && g2 == g3;
        (stable, e1)
    }

    /// one and the same live value renders differently twice in a row
    fn live_unstable(&self, h: HandleId) -> bool {
        self.live_canon(h) != self.live_canon(h)
    }

    fn live_canon(&self, h: HandleId) -> Vec<String> {
        let a = self.arena.borrow();
        canon(a.get(h).expect("HARNESS: live_canon of dead handle"), true)
    }

    /// `independent`: the live handle shows exactly what its own lineage says
    pub fn check_handle(&mut self, h: HandleId, check: &'static str) -> Result<(), Stop> {
        if self.model[&h].residue {
            return Ok(());
        }
        // a C10 run judges INSERT statements only (SELECT / ON CONFLICT / WITH handles are there
        // to be composed into them)
        if self.c10() && self.model[&h].fam != Family::Insert {
            return Ok(());
        }
        let exp = self.expected(h)?;
        let got = self.live_canon(h);
        self.stats.check(check);
        // C10 speaks about rendered INSERTs: where the live statement does not render at all
        // (a panic, whatever the lineage does there) there is no rendered INSERT to judge, here
        // as in the structural check below
        let c10 = self.c10();
        let differs = |e: &[String], g: &[String]| {
            if !c10 {
                return e != g;
            }
            e.len() != g.len()
                || e.iter().zip(g).any(|(e, g)| e != g && !g.starts_with("PANIC:"))
        };
        if differs(&exp, &got) {
            // Before blaming the statement: render both sides again, now. If a fresh replay and
            // the live handle agree at this moment, the earlier difference came from rendering
            // that is not a pure function of the statement (hidden global / per-thread state in
            // the renderer) — another property's business, not a difference between the values.
            let log = self.model[&h].log.clone();
            let fresh = guarded(|| replay(&log))
                .map_err(|e| Stop::Harness(format!("lineage replay panicked: {}", e)))?;
            let (really, exp2) = Self::stable_difference(&fresh, &|| self.live_canon(h), &differs);
            if !really {
                self.stats.probe("rendering_depends_on_hidden_state_not_on_the_value");
                let m = self.model.get_mut(&h).unwrap();
                m.rep = Some(fresh);
                m.exp = Some(Rc::new(exp2));
                return Ok(());
            }
            return Err(self.viol(
                check,
                format!("handle {} ({:?}): {}", h, self.model[&h].fam, diff(&exp, &got)),
            ));
        }
        if self.c10() && self.model[&h].fam == Family::Insert {
            if let Err(first) = self.check_insert_render(h) {
                // same second look for the structural reading of the rendered INSERT
                match (first, self.check_insert_render(h)) {
                    (Stop::Violation(_), Ok(())) => {
                        self.stats.probe("rendering_depends_on_hidden_state_not_on_the_value");
                    }
                    (Stop::Violation(_), Err(_)) if self.live_unstable(h) => {
                        self.stats.probe("rendering_depends_on_hidden_state_not_on_the_value");
                    }
                    (Stop::Violation(_), Err(second)) => return Err(second),
                    (first, _) => return Err(first),
                }
            }
        }
        Ok(())
    }

    pub fn check_all(&mut self) -> Result<(), Stop> {
        let hs: Vec<HandleId> = self.model.keys().copied().collect();
        for h in hs {
            self.check_handle(h, "independent")?;
        }
        Ok(())
    }

    // ---------------------------------------------------------------- validity

    fn alive(&self, h: HandleId) -> bool {
        self.model.contains_key(&h)
    }

    fn usable_src(&self, h: HandleId) -> bool {
        self.model.get(&h).map(|m| !m.residue).unwrap_or(false)
    }

    pub fn valid(&self, step: &Step) -> bool {
        match step {
            Step::New { h, ctor, .. } => {
                !self.alive(*h) && self.refs_valid(None, &ctor_refs(ctor))
            }
            Step::Op { h, op, refs } => {
                let Some(m) = self.model.get(h) else { return false };
                let added: u64 = refs.iter().filter_map(|(g, _)| self.model.get(g)).map(|x| x.weight).sum();
                op.applies_to(m.fam) && self.refs_valid(Some(*h), refs) && m.weight + added <= MAX_WEIGHT
            }
            Step::Take { src, new } => {
                self.usable_src(*src) && !self.alive(*new) && self.model[src].fam.has_take()
            }
            Step::Clone { src, new } => self.usable_src(*src) && !self.alive(*new),
            Step::CloneFrom { src, dst } => {
                self.usable_src(*src)
                    && self.alive(*dst)
                    && src != dst
                    && self.model[src].fam == self.model[dst].fam
            }
            Step::Clear { h, what } => {
                self.model.get(h).map(|m| what.applies_to(m.fam)).unwrap_or(false)
            }
            Step::Drop { h } => self.alive(*h),
            Step::Observe { h, nested, .. } => {
                self.alive(*h)
                    && nested.map(|(g, _)| self.alive(g) && g != *h).unwrap_or(true)
            }
            Step::ObserveEq { a, b, .. } => {
                self.alive(*a)
                    && self.alive(*b)
                    && self.model[a].fam == self.model[b].fam
                    && self.model[a].fam.has_eq()
            }
            Step::ObserveDebug { h, .. } => self.alive(*h),
            Step::Check => true,
        }
    }

    fn refs_valid(&self, target: Option<HandleId>, refs: &[(HandleId, SubMode)]) -> bool {
        for (i, (h, mode)) in refs.iter().enumerate() {
            if !self.usable_src(*h) {
                return false;
            }
            if Some(*h) == target && *mode != SubMode::Clone {
                return false;
            }
            if *mode == SubMode::Take && !self.model[h].fam.has_take() {
                return false;
            }
            // a handle may appear twice only if every appearance is a clone
            for (g, m2) in &refs[..i] {
                if g == h && (*mode != SubMode::Clone || *m2 != SubMode::Clone) {
                    return false;
                }
            }
        }
        true
    }

    // ---------------------------------------------------------------- steps

    pub fn exec(&mut self, step: &Step) -> Result<(), Stop> {
        if !self.valid(step) {
            self.stats.skipped_steps += 1;
            return Ok(());
        }
        self.stats.steps += 1;
        *self.stats.by_kind.entry(step.kind()).or_insert(0) += 1;
        if step.is_value_op() && self.cfg.n_steps > 0 {
            let d = (self.step_no * 10 / self.cfg.n_steps.max(1)).min(9);
            self.stats.value_op_positions[d] += 1;
        }
        let mut r = self.exec_inner(step);
        seams::disarm();
        // "later changes to either never show in the other": after a mutation, look at a relative
        if r.is_ok() {
            let mutated = match step {
                Step::Op { h, .. } | Step::Clear { h, .. } => Some(*h),
                _ => None,
            };
            if let Some(h) = mutated {
                if let Some(m) = self.model.get(&h) {
                    let rel: Vec<HandleId> = m.rel.iter().copied().filter(|g| self.model.contains_key(g)).collect();
                    if !rel.is_empty() && (self.step_no + h as usize) % 3 == 0 {
                        let g = rel[(self.step_no / 3) % rel.len()];
                        self.stats.probe("relative_checked_after_mutation");
                        r = self.check_handle(g, "independent");
                    }
                }
            }
        }
        self.step_no += 1;
        r
    }

    fn apply_ref_effects(&mut self, refs: &[(HandleId, SubMode)]) {
        for (h, mode) in refs {
            match mode {
                SubMode::Clone => {}
                SubMode::Take => {
                    let m = self.model.get_mut(h).unwrap();
                    if m.fam.take_leaves_fresh() {
                        m.log = Log::new(m.fam);
                    } else {
                        m.residue = true;
                    }
                    m.touch();
                }
                SubMode::Move => {
                    self.model.remove(h);
                }
            }
        }
    }

    fn link(&mut self, a: HandleId, b: HandleId) {
        if let Some(m) = self.model.get_mut(&a) {
            m.rel.push(b);
        }
        if let Some(m) = self.model.get_mut(&b) {
            m.rel.push(a);
        }
    }

    fn exec_inner(&mut self, step: &Step) -> Result<(), Stop> {
        match step {
            Step::New { h, fam, ctor } => {
                let refs = ctor_refs(ctor);
                let resolved = resolve_ctor(ctor, &self.model);
                let arena = self.arena.clone();
                let s = {
                    let mut cx = Ctx {
                        live: true,
                        pool: Some(&self.pool),
                        arena: Some(&arena),
                        target: None,
                        self_clone: None,
                    };
                    guarded(|| construct(*fam, ctor, &mut cx))
                        .map_err(|e| Stop::Harness(format!("constructor panicked: {}", e)))?
                };
                self.arena.borrow_mut().put(*h, s);
                self.apply_ref_effects(&refs);
                self.model.insert(
                    *h,
                    MH::new(
                        *fam,
                        Log {
                            fam: *fam,
                            ctor: resolved,
                            ops: vec![],
                        },
                    ),
                );
                Ok(())
            }
            Step::Op { h, op, refs } => self.exec_op(*h, op, refs),
            Step::Take { src, new } => self.exec_take(*src, *new),
            Step::Clone { src, new } => self.exec_clone(*src, *new),
            Step::CloneFrom { src, dst } => self.exec_clone_from(*src, *dst),
            Step::Clear { h, what } => self.exec_clear(*h, *what),
            Step::Drop { h } => {
                let shared = !self.model[h].rel.is_empty();
                if shared {
                    self.stats.fault("handle_dropped_while_shared");
                }
                let s = self.arena.borrow_mut().remove(*h);
                drop(s);
                self.model.remove(h);
                Ok(())
            }
            Step::Observe { h, obs, iden_panic_in, nested } => {
                self.exec_observe(*h, obs, *iden_panic_in, *nested)
            }
            Step::ObserveEq { a, b, iden_panic_in } => self.exec_eq(*a, *b, *iden_panic_in),
            Step::ObserveDebug { h, iden_panic_in } => {
                seams::with_seam(|s| s.iden_panic_in = *iden_panic_in);
                let r = {
                    let a = self.arena.borrow();
                    let st = a.get(*h).unwrap();
                    guarded(|| st.debug())
                };
                seams::disarm();
                match &r {
                    Err(m) if m == FAULT_IDEN => self.stats.fault("iden_panic_in_debug"),
                    Err(m) => {
                        return Err(Stop::Harness(format!("Debug panicked: {}", m)));
                    }
                    Ok(_) => {}
                }
                self.check_handle(*h, "observe.pure")
            }
            Step::Check => self.check_all(),
        }
    }

    // ---------------------------------------------------------------- builder op

    fn exec_op(&mut self, h: HandleId, op: &Op, refs: &[(HandleId, SubMode)]) -> Result<(), Stop> {
        let fam = self.model[&h].fam;
        let resolved = if refs.is_empty() {
            op.clone()
        } else {
            resolve_op(op, &self.model)
        };
        // prediction for INSERT row operations
        let pred = if fam == Family::Insert {
            // the width of a SELECT source is measured on the real statement that is passed
            let sel_width = match op {
                Op::Ins(InsOp::SelectFrom(Sub::Handle { h: g, .. })) => {
                    let a = self.arena.borrow();
                    match a.get(*g) {
                        Some(Stmt::Select(q)) => Some(measured_width(q)),
                        _ => None,
                    }
                }
                _ => None,
            };
            predict_insert(&self.model[&h].log, &resolved, sel_width)
        } else {
            InsPred::Plain
        };
        let is_row_op = !matches!(pred, InsPred::Plain);
        let check_c10 = self.c10() && fam == Family::Insert;
        if is_row_op {
            // arguments that cannot even be constructed (a panic inside an expression or SELECT
            // builder call) are not the INSERT contract's business: skip the step
            let probe = resolved.clone();
            let constructible = guarded(move || {
                let mut cx = Ctx::oracle();
                match &probe {
                    Op::Ins(InsOp::Values(r, _)) | Op::Ins(InsOp::ValuesPanic(r, _)) => {
                        for c in r {
                            let _ = mat_expr(c, &mut cx);
                        }
                    }
                    Op::Ins(InsOp::ValuesFromPanic(rows, _)) => {
                        for (r, _) in rows {
                            for c in r {
                                let _ = mat_expr(c, &mut cx);
                            }
                        }
                    }
                    Op::Ins(InsOp::SelectFrom(Sub::Inline(l))) => {
                        let _ = build_log(l, &mut cx);
                    }
                    _ => {}
                }
            });
            if constructible.is_err() {
                self.stats.probe("row_arguments_not_constructible_step_skipped");
                return Ok(());
            }
        }

        let added_weight: u64 = 1 + refs
            .iter()
            .filter_map(|(g, _)| self.model.get(g))
            .map(|x| x.weight)
            .sum::<u64>();
        let mut stmt = self.arena.borrow_mut().remove(h).expect("HARNESS: target missing");
        let before = if is_row_op {
            Some(stmt.clone())
        } else {
            None
        };
        let self_clone = if refs.iter().any(|(g, _)| *g == h) {
            self.stats.probe("self_reference_clone");
            Some(stmt.clone())
        } else {
            None
        };
        let arena = self.arena.clone();
        let outcome = {
            let mut cx = Ctx {
                live: true,
                pool: Some(&self.pool),
                arena: Some(&arena),
                target: Some(h),
                self_clone,
            };
            guarded(|| apply_op(&mut stmt, op, &mut cx))
        };
        self.arena.borrow_mut().put(h, stmt);
        // sub-statements were materialised (taken / moved) before the call could fail
        self.apply_ref_effects(refs);
        for (g, mode) in refs {
            match mode {
                SubMode::Clone => {
                    self.link(h, *g);
                    self.stats.probe("composed_clone_of_live_handle");
                }
                SubMode::Take => {
                    self.link(h, *g);
                    self.stats.probe("composed_take_of_live_handle");
                }
                SubMode::Move => self.stats.probe("composed_move_of_live_handle"),
            }
        }

        // classify
        let got = match &outcome {
            Ok(Ok(())) => Got::Ok,
            Ok(Err(e)) => Got::Err(e.clone()),
            Err(m) if m == FAULT_ITER => Got::IterPanic,
            Err(m) => Got::Panic(m.clone()),
        };

        match (&pred, &got) {
            (InsPred::Plain, Got::Ok) => {
                let m = self.model.get_mut(&h).unwrap();
                m.log.ops.extend(resolved.flatten());
                m.weight += added_weight;
                m.touch();
            }
            (InsPred::Plain, other) => {
                return Err(Stop::Harness(format!(
                    "builder op {} on {:?} did not complete: {:?}",
                    op.kind(),
                    fam,
                    other
                )));
            }
            (InsPred::Row { accepted, expect, cols, width }, got) => {
                let style = expect.style();
                *self.stats.c10_grid.entry((*cols, *width, style)).or_insert(0) += 1;
                match expect {
                    Expect::Ok => {}
                    Expect::Err(_) => self.stats.fault("op_rejected_err"),
                    Expect::MismatchPanic(_) => {
                        if matches!(resolved, Op::Ins(InsOp::ValuesFromPanic(..))) {
                            self.stats.fault("batch_unwound_mid");
                        } else {
                            self.stats.fault("op_unwound");
                        }
                    }
                    Expect::IterPanic => self.stats.fault("iter_panic_after_j"),
                    Expect::Unwind { mismatch, iter } => {
                        if *mismatch {
                            self.stats.fault("batch_unwound_mid");
                        }
                        if *iter {
                            self.stats.fault("iter_panic_after_j");
                        }
                    }
                }
                let matches = match (expect, got) {
                    (Expect::Ok, Got::Ok) => true,
                    (Expect::Err(e), Got::Err(g)) => e == g,
                    // the property does not constrain the panic message, only that it unwinds
                    (Expect::MismatchPanic(_), Got::Panic(m)) => !m.contains("HARNESS"),
                    (Expect::IterPanic, Got::IterPanic) => true,
                    (Expect::Unwind { mismatch: true, .. }, Got::Panic(m)) => !m.contains("HARNESS"),
                    (Expect::Unwind { iter: true, .. }, Got::IterPanic) => true,
                    _ => false,
                };
                if check_c10 {
                    self.stats.check("c10.result");
                    if !matches {
                        return Err(self.viol(
                            "c10.result",
                            format!(
                                "op {} with {} declared columns and a row of {}: expected {:?}, got {:?}",
                                op.kind(),
                                cols,
                                width,
                                expect,
                                got
                            ),
                        ));
                    }
                } else if !matches {
                    // not a C15 matter (the INSERT row contract is C10's): follow what the code did
                    self.stats.probe("insert_outcome_differs_from_model_in_c15_run");
                    let unchanged = {
                        let a = self.arena.borrow();
                        match &before {
                            Some(b) => a.get(h).unwrap().eq_value(b) == Some(true),
                            None => false,
                        }
                    };
                    let m = self.model.get_mut(&h).unwrap();
                    if matches!(got, Got::Ok) && !unchanged {
                        m.log.ops.push(resolved.clone());
                        m.weight += added_weight;
                    } else if !unchanged {
                        m.residue = true; // unknown state: stop modelling this handle
                    }
                    m.touch();
                    return Ok(());
                }
                // the model keeps exactly the accepted part. For a batch that failed after some
                // good rows the property does not say whether those rows stay (today they do) or
                // the whole batch is rejected: both are accepted, the model follows the code.
                if let Some(acc) = accepted {
                    let mut keep = true;
                    if !matches!(expect, Expect::Ok) {
                        let unchanged = {
                            let a = self.arena.borrow();
                            match &before {
                                Some(b) => a.get(h).unwrap().eq_value(b) == Some(true),
                                None => false,
                            }
                        };
                        if unchanged {
                            keep = false;
                            self.stats.probe("failed_batch_rejected_as_a_whole");
                        } else {
                            self.stats.probe("failed_batch_kept_its_good_prefix");
                        }
                    }
                    if keep {
                        let m = self.model.get_mut(&h).unwrap();
                        m.log.ops.push(acc.clone());
                        m.weight += added_weight;
                        m.touch();
                    }
                }
                if !matches!(expect, Expect::Ok) {
                    self.stats.probe("failed_op_then_continue");
                    if check_c10 {
                        // failure atomicity: nothing but the accepted prefix may have changed
                        if accepted.is_none() {
                            if let Some(b) = &before {
                                let a = self.arena.borrow();
                                let now = a.get(h).unwrap();
                                self.stats.check("c10.atomic");
                                // `==` is evidence of a change only if equality and cloning
                                // work on this value at all (now.clone() == now); where they do
                                // not — C15's and the value types' business — the rendering
                                // comparison below is what decides
                                let eq_usable = guarded(|| now.clone().eq_value(now) == Some(true)).unwrap_or(false);
                                if !eq_usable {
                                    self.stats.probe("equality_or_clone_unusable_on_this_value");
                                }
                                if eq_usable && !self.cfg.allow_nan && now.eq_value(b) != Some(true) {
                                    drop(a);
                                    return Err(self.viol(
                                        "c10.atomic",
                                        format!(
                                            "statement != clone taken before the failed {} ({} columns, row of {})",
                                            op.kind(), cols, width
                                        ),
                                    ));
                                }
                            }
                        }
                    }
                }
            }
        }
        if check_c10 && is_row_op {
            self.check_handle(h, "c10.atomic")?;
        }
        Ok(())
    }

    // ---------------------------------------------------------------- take / clone / clear

    fn exec_take(&mut self, src: HandleId, new: HandleId) -> Result<(), Stop> {
        let fam = self.model[&src].fam;
        let exp = self.expected(src)?;
        let nan = self.has_nan(src);
        let (before, taken) = {
            let mut a = self.arena.borrow_mut();
            let s = a.get_mut(src).unwrap();
            let before = s.clone();
            let t = guarded(|| s.take_value().expect("HARNESS: take on family without take"));
            (before, t)
        };
        let taken = match taken {
            Ok(t) => t,
            Err(m) => {
                if m.contains("HARNESS") {
                    return Err(Stop::Harness(m));
                }
                return Err(self.viol("take.returns_all", format!("take() panicked: {}", m)));
            }
        };
        if !self.model[&src].log.ops.is_empty() {
            self.stats.probe("take_of_nonempty_source");
        }
        // returned value == value before the call
        self.stats.check("take.returns_all");
        if fam.has_eq() && !nan && taken.eq_value(&before) != Some(true) {
            return Err(self.viol(
                "take.returns_all",
                format!("{:?}: taken value != clone made just before take()", fam),
            ));
        }
        let got = canon(&taken, true);
        let src_log = self.model[&src].log.clone();
        if *exp != got && self.rerender_differs(&src_log, &taken)? {
            return Err(self.viol(
                "take.returns_all",
                format!("{:?}: taken value renders differently: {}", fam, diff(&exp, &got)),
            ));
        }
        drop(before);
        // what is left behind
        if fam.take_leaves_fresh() {
            self.stats.check("take.leaves_fresh");
            let fresh = self.fresh_canon(fam);
            let left = self.live_canon(src);
            let eq_new = {
                let a = self.arena.borrow();
                a.get(src).unwrap().eq_value(&Stmt::fresh(fam))
            };
            if eq_new != Some(true) {
                return Err(self.viol(
                    "take.leaves_fresh",
                    format!("{:?}: statement left behind by take() != newly constructed", fam),
                ));
            }
            if *fresh != left
                && canon(&Stmt::fresh(fam), false) != self.live_canon(src)
                && !self.live_unstable(src)
            {
                return Err(self.viol(
                    "take.leaves_fresh",
                    format!("{:?}: left-behind renders differently from new(): {}", fam, diff(&fresh, &left)),
                ));
            }
        }
        self.arena.borrow_mut().put(new, taken);
        let log = self.model[&src].log.clone();
        {
            let m = self.model.get_mut(&src).unwrap();
            if fam.take_leaves_fresh() {
                m.log = Log::new(fam);
            } else {
                m.residue = true;
            }
            m.touch();
        }
        let mut mh = MH::new(fam, log);
        mh.exp = Some(exp);
        mh.weight = self.model[&src].weight;
        self.model.insert(new, mh);
        self.model.get_mut(&src).unwrap().weight = 1;
        self.link(src, new);
        Ok(())
    }

    fn exec_clone(&mut self, src: HandleId, new: HandleId) -> Result<(), Stop> {
        let fam = self.model[&src].fam;
        let exp = self.expected(src)?;
        let nan = self.has_nan(src);
        let c = {
            let a = self.arena.borrow();
            let s = a.get(src).unwrap();
            guarded(|| s.clone())
        };
        let c = match c {
            Ok(c) => c,
            Err(m) => return Err(self.viol("clone.equal", format!("clone() panicked: {}", m))),
        };
        self.stats.check("clone.equal");
        if fam.has_eq() && !nan {
            let a = self.arena.borrow();
            if c.eq_value(a.get(src).unwrap()) != Some(true) {
                drop(a);
                return Err(self.viol("clone.equal", format!("{:?}: clone != source", fam)));
            }
        }
        let got = canon(&c, true);
        let src_log = self.model[&src].log.clone();
        if *exp != got && self.rerender_differs(&src_log, &c)? {
            return Err(self.viol(
                "clone.equal",
                format!("{:?}: clone renders differently from its source: {}", fam, diff(&exp, &got)),
            ));
        }
        self.arena.borrow_mut().put(new, c);
        let log = self.model[&src].log.clone();
        let mut mh = MH::new(fam, log);
        mh.exp = Some(exp);
        mh.weight = self.model[&src].weight;
        self.model.insert(new, mh);
        self.link(src, new);
        Ok(())
    }

    fn exec_clone_from(&mut self, src: HandleId, dst: HandleId) -> Result<(), Stop> {
        let fam = self.model[&src].fam;
        let exp = self.expected(src)?;
        let nan = self.has_nan(src);
        if !self.model[&dst].log.ops.is_empty() {
            self.stats.probe("clone_from_into_nonempty_target");
        }
        let mut d = self.arena.borrow_mut().remove(dst).unwrap();
        let r = {
            let a = self.arena.borrow();
            let s = a.get(src).unwrap();
            guarded(|| d.clone_from_value(s))
        };
        if let Err(m) = r {
            return Err(self.viol("clone.equal", format!("clone_from() panicked: {}", m)));
        }
        self.stats.check("clone.equal");
        if fam.has_eq() && !nan {
            let a = self.arena.borrow();
            if d.eq_value(a.get(src).unwrap()) != Some(true) {
                drop(a);
                self.arena.borrow_mut().put(dst, d);
                return Err(self.viol(
                    "clone.equal",
                    format!("{:?}: after dst.clone_from(&src), dst != src", fam),
                ));
            }
        }
        let got = canon(&d, true);
        let src_log = self.model[&src].log.clone();
        let differs = *exp != got && self.rerender_differs(&src_log, &d)?;
        self.arena.borrow_mut().put(dst, d);
        if differs {
            return Err(self.viol(
                "clone.equal",
                format!("{:?}: after dst.clone_from(&src), dst renders differently from src: {}", fam, diff(&exp, &got)),
            ));
        }
        let log = self.model[&src].log.clone();
        let w = self.model[&src].weight;
        let m = self.model.get_mut(&dst).unwrap();
        m.weight = w;
        m.log = log;
        m.residue = false;
        m.touch();
        m.exp = Some(exp);
        self.link(src, dst);
        Ok(())
    }

    fn exec_clear(&mut self, h: HandleId, what: ClearKind) -> Result<(), Stop> {
        use sea_query::OrderedStatement;
        let r = {
            let mut a = self.arena.borrow_mut();
            let s = a.get_mut(h).unwrap();
            guarded(|| match (s, what) {
                (Stmt::Select(q), ClearKind::ClearSelects) => {
                    q.clear_selects();
                }
                (Stmt::Select(q), ClearKind::FromClear) => {
                    q.from_clear();
                }
                (Stmt::Select(q), ClearKind::ResetLimit) => {
                    q.reset_limit();
                }
                (Stmt::Select(q), ClearKind::ResetOffset) => {
                    q.reset_offset();
                }
                (Stmt::Select(q), ClearKind::ClearOrderBy) => {
                    q.clear_order_by();
                }
                (Stmt::Update(q), ClearKind::ClearOrderBy) => {
                    q.clear_order_by();
                }
                (Stmt::Delete(q), ClearKind::ClearOrderBy) => {
                    q.clear_order_by();
                }
                (Stmt::Window(q), ClearKind::ClearOrderBy) => {
                    OrderedStatement::clear_order_by(q);
                }
                (s, w) => panic!("HARNESS: clear {:?} on {:?}", w, s.family()),
            })
        };
        if let Err(m) = r {
            return Err(self.viol("clear.exact", format!("{:?} panicked: {}", what, m)));
        }
        let m = self.model.get_mut(&h).unwrap();
        let n0 = m.log.ops.len();
        let clause = what.clause();
        m.log.ops.retain(|o| o.clause() != clause);
        if m.log.ops.len() != n0 {
            self.stats.probe("clear_removed_something");
        }
        if !m.log.ops.is_empty() {
            self.stats.probe("clear_kept_something");
        }
        m.touch();
        self.check_handle(h, "clear.exact")
    }

    // ---------------------------------------------------------------- observations

    fn exec_observe(
        &mut self,
        h: HandleId,
        obs: &ObsSpec,
        iden_panic_in: Option<u64>,
        nested: Option<(HandleId, u64)>,
    ) -> Result<(), Stop> {
        let residue = self.model[&h].residue;
        // arm the seams
        let nested_out: Rc<RefCell<Option<Vec<String>>>> = Rc::new(RefCell::new(None));
        seams::with_seam(|s| s.iden_panic_in = iden_panic_in);
        if let Some((g, at)) = nested {
            let arena = self.arena.clone();
            let out = nested_out.clone();
            seams::with_seam(|s| {
                s.nested_in = Some(at);
                s.nested = Some(Box::new(move || {
                    if let Ok(a) = arena.try_borrow() {
                        if let Some(st) = a.get(g) {
                            *out.borrow_mut() = Some(canon(st, true));
                        }
                    }
                }));
            });
        }
        let fired0 = seams::with_seam(|s| s.faults_fired_iden);
        let res = {
            let a = self.arena.borrow();
            observe_one(a.get(h).unwrap(), obs, true)
        };
        let fired = seams::with_seam(|s| s.faults_fired_iden) > fired0;
        seams::disarm();
        if fired {
            self.stats.fault("iden_panic_in_render");
        }
        let writer_fault = res.partial.is_some();
        if writer_fault {
            self.stats.fault("writer_error_at_k");
        }
        if residue || (self.c10() && self.model[&h].fam != Family::Insert) {
            return Ok(());
        }
        self.stats.check("observe.pure");
        // the same observation on the lineage replay, without faults
        self.ensure_rep(h)?;
        let clean = ObsSpec {
            writer_fail_in: None,
            ..obs.clone()
        };
        let exp = observe_one(self.model[&h].rep.as_ref().unwrap(), &clean, false);
        if !fired && !writer_fault {
            let second_look_differs = |sim: &Self| {
                let a = sim.arena.borrow();
                let live2 = observe_one(a.get(h).unwrap(), &clean, true);
                let exp2 = observe_one(sim.model[&h].rep.as_ref().unwrap(), &clean, false);
                let live3 = observe_one(a.get(h).unwrap(), &clean, true);
                live2.out != exp2.out && live3.out == live2.out
            };
            let no_rendered_insert = self.c10() && res.out.is_err();
            if exp.out != res.out && !no_rendered_insert && second_look_differs(self) {
                return Err(self.viol(
                    "observe.pure",
                    format!(
                        "handle {} {:?}: observation {:?} differs from the same observation of its lineage: expected {:?} got {:?}",
                        h, self.model[&h].fam, obs, exp.out, res.out
                    ),
                ));
            }
        } else {
            if res.out.is_ok() {
                // the tree under test swallowed the injected failure (e.g. it no longer unwraps
                // write errors): nothing to compare for this observation
                self.stats.probe("injected_fault_absorbed_by_the_tree");
                return Ok(());
            }
            if let (Some(p), Ok(full)) = (&res.partial, &exp.out) {
                self.stats.check("observe.torn_prefix");
                if !full.starts_with(p.as_str()) {
                    return Err(self.viol(
                        "observe.pure",
                        format!("output accepted before the sink failed is not a prefix of the full output: {:?} vs {:?}", p, full),
                    ));
                }
            }
        }
        // the observed handle is unchanged
        if fired || writer_fault || self.step_no % 4 == 0 {
            self.check_handle(h, "observe.pure")?;
        }
        // the nested observation (made in the middle of this render) saw the other handle's lineage
        if let Some((g, _)) = nested {
            let got = nested_out.borrow_mut().take();
            if let Some(got) = got {
                self.stats.fault("nested_observation_in_render");
                if !self.model[&g].residue {
                    let exp = self.expected(g)?;
                    self.stats.check("independent.nested");
                    if *exp != got {
                        return Err(self.viol(
                            "independent",
                            format!(
                                "handle {} observed from inside a render of handle {}: {}",
                                g, h, diff(&exp, &got)
                            ),
                        ));
                    }
                }
            }
        }
        Ok(())
    }

    fn exec_eq(&mut self, a: HandleId, b: HandleId, iden_panic_in: Option<u64>) -> Result<(), Stop> {
        seams::with_seam(|s| s.iden_panic_in = iden_panic_in);
        let fired0 = seams::with_seam(|s| s.faults_fired_iden);
        let r = {
            let ar = self.arena.borrow();
            let (x, y) = (ar.get(a).unwrap(), ar.get(b).unwrap());
            guarded(|| x.eq_value(y))
        };
        let fired = seams::with_seam(|s| s.faults_fired_iden) > fired0;
        seams::disarm();
        if fired {
            self.stats.fault("iden_panic_in_eq");
        }
        match r {
            // the property demands equality at clone / take time (checked there); what `==` says
            // later, between values that were edited separately, is not constrained
            Ok(Some(_)) => {}
            Ok(None) => return Err(Stop::Harness("eq on family without PartialEq".into())),
            Err(m) if m == FAULT_IDEN => {}
            Err(m) => return Err(Stop::Harness(format!("== panicked: {}", m))),
        }
        self.check_handle(a, "observe.pure")?;
        self.check_handle(b, "observe.pure")
    }

    // ---------------------------------------------------------------- C10 structure of the rendering

    fn check_insert_render(&mut self, h: HandleId) -> Result<(), Stop> {
        let im = ins_model(&self.model[&h].log);
        if im.ragged() {
            // the model itself predicts a non-rectangular statement: only reachable through
            // columns() re-declared after a source was accepted
            if self.known.iter().any(|k| k == KF_COLUMNS_REDECLARED) {
                *self
                    .stats
                    .known_findings
                    .entry(KF_COLUMNS_REDECLARED.to_string())
                    .or_insert(0) += 1;
                // whatever a tree does with the stale rows (keep them as today, or drop them)
                // is not judged further: the structure check below applies to rectangular models
                return Ok(());
            } else {
                return Err(self.viol(
                    "c10.rect",
                    format!(
                        "INSERT with {} declared columns holds a row/select of another width after columns() was re-declared",
                        im.cols.len()
                    ),
                ));
            }
        }
        // Only the rows are judged: with a VALUES source the rendered statement must contain the
        // column list followed by exactly the accepted rows in call order (not followed by one
        // more row); for a SELECT source, the column list followed by that select. What comes
        // before and after (INSERT/REPLACE, table, ON CONFLICT, RETURNING, hints) and how an
        // INSERT without source or the DEFAULT VALUES path is spelled belongs to other properties.
        if matches!(im.source, InsSrc::None) {
            return Ok(());
        }
        for b in BACKENDS {
            let text = {
                let a = self.arena.borrow();
                let st = a.get(h).unwrap();
                observe_one(
                    st,
                    &ObsSpec {
                        backend: b,
                        entry: Entry::ToString,
                        writer_fail_in: None,
                    },
                    false,
                )
                .out
            };
            let Ok(text) = text else {
                self.stats.check("c10.render.skipped_unrenderable");
                continue;
            };
            let Some(segs) = expected_insert_segments(&im, b) else {
                self.stats.check("c10.render.skipped_unrenderable");
                continue;
            };
            self.stats.check("c10.render");
            let mut ok = false;
            'seg: for seg in &segs {
                let mut from = 0;
                while let Some(i) = text[from..].find(seg.as_str()) {
                    let end = from + i + seg.len();
                    let rest = &text[end..];
                    // not followed by one more row / cell of the same list
                    if !rest.starts_with(", ") && !rest.starts_with(",(") {
                        ok = true;
                        break 'seg;
                    }
                    from = from + i + 1;
                    while !text.is_char_boundary(from) {
                        from += 1;
                    }
                }
            }
            if !ok {
                return Err(self.viol(
                    "c10.render",
                    format!(
                        "{:?}: rendered INSERT {:?} does not contain the column list and rows accepted so far, in call order: {:?}",
                        b, text, segs[0]
                    ),
                ));
            }
            // parameterised form: the bound values of the accepted cells appear as one contiguous
            // run, in call order
            if let InsSrc::Rows(rows) = &im.source {
                let mut want: Vec<String> = Vec::new();
                let mut ok_cells = true;
                'rows: for r in rows {
                    for c in r {
                        match cell_params(c, b) {
                            Some(v) => want.extend(v),
                            None => {
                                ok_cells = false;
                                break 'rows;
                            }
                        }
                    }
                }
                let got = {
                    let a = self.arena.borrow();
                    match a.get(h).unwrap() {
                        Stmt::Insert(i) => guarded(|| build_values(i, b)).ok(),
                        _ => None,
                    }
                };
                if let (true, Some(got)) = (ok_cells, got) {
                    self.stats.check("c10.params");
                    let found = want.is_empty()
                        || got.windows(want.len()).any(|w| w == want.as_slice());
                    if !found {
                        return Err(self.viol(
                            "c10.render",
                            format!(
                                "{:?}: bound parameters {:?} do not contain the accepted cells' values in call order {:?}",
                                b, got, want
                            ),
                        ));
                    }
                }
            }
        }
        Ok(())
    }
}

fn values_dbg(v: &sea_query::Values) -> Vec<String> {
    v.0.iter().map(|x| format!("{:?}", x)).collect()
}

fn build_values(i: &sea_query::InsertStatement, b: Backend) -> Vec<String> {
    match b {
        Backend::Mysql => values_dbg(&i.build(sea_query::MysqlQueryBuilder).1),
        Backend::Pg => values_dbg(&i.build(sea_query::PostgresQueryBuilder).1),
        Backend::Sqlite => values_dbg(&i.build(sea_query::SqliteQueryBuilder).1),
    }
}

fn cell_params(e: &ExprSpec, b: Backend) -> Option<Vec<String>> {
    let i = one_cell_insert(e)?;
    guarded(|| build_values(&i, b)).ok()
}

pub fn ctor_refs(c: &Ctor) -> Vec<(HandleId, SubMode)> {
    if matches!(c, Ctor::Default) {
        return vec![];
    }
    crate::model::json_refs(&serde_json::to_value(c).unwrap())
}

// ------------------------------------------------------------------------------------------
// prediction of INSERT row operations from the model

#[derive(Clone, Debug, PartialEq)]
pub enum Expect {
    /// a batch with at least one failing event: it must unwind, through any of the listed kinds
    /// (the order in which a batch evaluates its rows and iterators is not fixed by the property)
    Unwind { mismatch: bool, iter: bool },
    Ok,
    /// Debug text of the returned error
    Err(String),
    /// panic message must contain this (the Debug text of the error)
    MismatchPanic(String),
    IterPanic,
}

impl Expect {
    pub fn style(&self) -> &'static str {
        match self {
            Expect::Unwind { .. } => "unwound",
            Expect::Ok => "accepted",
            Expect::Err(_) => "err",
            Expect::MismatchPanic(_) => "unwound",
            Expect::IterPanic => "iter_panic",
        }
    }
}

#[derive(Clone, Debug, PartialEq)]
enum Got {
    Ok,
    Err(String),
    Panic(String),
    IterPanic,
}

pub enum InsPred {
    /// not a row operation: must simply succeed
    Plain,
    Row {
        /// what the model appends (None: nothing accepted)
        accepted: Option<Op>,
        expect: Expect,
        cols: usize,
        width: usize,
    },
}

fn mismatch(cols: usize, width: usize) -> String {
    format!("ColValNumMismatch {{ col_len: {}, val_len: {} }}", cols, width)
}

/// what one row does: Ok(()) accepted, Err(expect) first failing event
fn row_event(cols: usize, row: &[ExprSpec], b: IterB) -> Result<(), Expect> {
    if let IterB::PanicAfter(j) = b {
        if (j as usize) <= row.len() {
            return Err(Expect::IterPanic);
        }
    }
    if row.len() != cols {
        return Err(Expect::MismatchPanic(mismatch(cols, row.len())));
    }
    Ok(())
}

pub fn predict_insert(log: &Log, op: &Op, sel_width: Option<usize>) -> InsPred {
    let cols = crate::gen::ins_cols(&log.ops);
    match op {
        Op::Ins(InsOp::Values(row, b)) => {
            let (accepted, expect) = match row_event(cols, row, *b) {
                Ok(()) => (Some(op.clone()), Expect::Ok),
                Err(Expect::MismatchPanic(_)) => (None, Expect::Err(mismatch(cols, row.len()))),
                Err(e) => (None, e),
            };
            InsPred::Row { accepted, expect, cols, width: row.len() }
        }
        Op::Ins(InsOp::ValuesPanic(row, b)) => {
            let (accepted, expect) = match row_event(cols, row, *b) {
                Ok(()) => (Some(op.clone()), Expect::Ok),
                Err(e) => (None, e),
            };
            InsPred::Row { accepted, expect, cols, width: row.len() }
        }
        Op::Ins(InsOp::ValuesFromPanic(rows, ob)) => {
            let mut acc = Vec::new();
            let mut first_fail: Option<usize> = None;
            let (mut mism, mut iterp) = (false, false);
            let mut width = cols;
            let outer_panic = match ob {
                IterB::PanicAfter(j) if (*j as usize) <= rows.len() => Some(*j as usize),
                _ => None,
            };
            for (i, (row, b)) in rows.iter().enumerate() {
                if outer_panic == Some(i) {
                    break; // rows from here on are never yielded
                }
                match row_event(cols, row, *b) {
                    Ok(()) => {
                        if first_fail.is_none() {
                            acc.push((row.clone(), IterB::Honest));
                        }
                    }
                    Err(e) => {
                        if first_fail.is_none() {
                            first_fail = Some(i);
                            width = row.len();
                        }
                        match e {
                            Expect::IterPanic => iterp = true,
                            _ => mism = true,
                        }
                    }
                }
            }
            if outer_panic.is_some() {
                iterp = true;
            }
            let expect = if mism || iterp {
                Expect::Unwind { mismatch: mism, iter: iterp }
            } else {
                Expect::Ok
            };
            let accepted = if acc.is_empty() && expect != Expect::Ok {
                None
            } else {
                Some(Op::Ins(InsOp::ValuesFromPanic(acc, IterB::Honest)))
            };
            InsPred::Row { accepted, expect, cols, width }
        }
        Op::Ins(InsOp::SelectFrom(Sub::Inline(l))) => {
            let w = sel_width.unwrap_or_else(|| measured_width_of_log(l));
            let (accepted, expect) = if w == cols {
                (Some(op.clone()), Expect::Ok)
            } else {
                (None, Expect::Err(mismatch(cols, w)))
            };
            InsPred::Row { accepted, expect, cols, width: w }
        }
        _ => InsPred::Plain,
    }
}

// ------------------------------------------------------------------------------------------
// expected text of the column list + source of an INSERT, from the model alone

/// a column name as the tree under test spells a lone identifier (so that a change to identifier
/// quoting — another property's business — shows on both sides of the comparison)
fn col_text(n: &str, b: Backend) -> Option<String> {
    // spelled by the INSERT column-list path of the tree under test itself
    let mut i = sea_query::InsertStatement::new();
    i.columns([crate::seams::SimIden {
        name: n.to_string(),
        live: false,
    }]);
    let t = guarded(|| match b {
        Backend::Mysql => i.to_string(sea_query::MysqlQueryBuilder),
        Backend::Pg => i.to_string(sea_query::PostgresQueryBuilder),
        Backend::Sqlite => i.to_string(sea_query::SqliteQueryBuilder),
    })
    .ok()?;
    let k = t.find(" (")?;
    t[k + 2..].strip_suffix(')').map(|s| s.to_string())
}

fn sel_to_string(q: &SelectStatement, b: Backend) -> Result<String, String> {
    guarded(|| match b {
        Backend::Mysql => q.to_string(sea_query::MysqlQueryBuilder),
        Backend::Pg => q.to_string(sea_query::PostgresQueryBuilder),
        Backend::Sqlite => q.to_string(sea_query::SqliteQueryBuilder),
    })
}

/// a one-column, one-row INSERT holding just this cell: the cell is spelled by the same code path
/// (the VALUES renderer of the tree under test) as inside the statement being judged, so the
/// oracle composes *cells* into rows and rows into lists without owning any expression rendering
fn one_cell_insert(e: &ExprSpec) -> Option<sea_query::InsertStatement> {
    let mut cx = Ctx::oracle();
    let expr = guarded(|| mat_expr(e, &mut cx)).ok()?;
    let mut i = sea_query::InsertStatement::new();
    i.columns([crate::seams::SimIden {
        name: "c".into(),
        live: false,
    }]);
    guarded(move || {
        i.values_panic([expr]);
        i
    })
    .ok()
}

fn cell_text(e: &ExprSpec, b: Backend) -> Option<String> {
    let i = one_cell_insert(e)?;
    let t = guarded(|| match b {
        Backend::Mysql => i.to_string(sea_query::MysqlQueryBuilder),
        Backend::Pg => i.to_string(sea_query::PostgresQueryBuilder),
        Backend::Sqlite => i.to_string(sea_query::SqliteQueryBuilder),
    })
    .ok()?;
    let k = t.find(" VALUES (")?;
    let inner = &t[k + " VALUES (".len()..];
    inner.strip_suffix(')').map(|s| s.to_string())
}

/// acceptable spellings of "column list + source" for a rectangular model with a source
pub fn expected_insert_segments(m: &InsModel, b: Backend) -> Option<Vec<String>> {
    let mut cols: Vec<String> = Vec::new();
    for c in &m.cols {
        cols.push(col_text(&c.n, b)?);
    }
    let head = format!(" ({})", cols.join(", "));
    match &m.source {
        InsSrc::None => None,
        InsSrc::Rows(rows) => {
            let mut rs = Vec::new();
            for r in rows {
                let mut cells = Vec::new();
                for c in r {
                    cells.push(cell_text(c, b)?);
                }
                rs.push(format!("({})", cells.join(", ")));
            }
            Some(vec![format!("{} VALUES {}", head, rs.join(", "))])
        }
        InsSrc::Select(l) => {
            let st = guarded(|| replay(l)).ok()?;
            let t = sel_to_string(&st.into_select(), b).ok()?;
            Some(vec![format!("{} {}", head, t), format!("{} ({})", head, t)])
        }
    }
}
