#!/usr/bin/env python3
"""C20 part A — compile-time obligations.

Scans /repo/src for every public struct / enum / type alias (so a type added upstream is covered
without editing this file), generates /verif/obligations/src/lib.rs with one function per type
asserting `T: Send + Sync` and, for value-like types, that a future holding a `T` (and a `&T`)
across an `.await` is `Send`; compiles it against /repo with feature `thread-safe` for a matrix
of optional features and reads rustc's JSON diagnostics.

  E0277 "... cannot be sent/shared between threads safely" in the obligations crate -> violation
  unresolved path / wrong generics for a scanned name -> that obligation is dropped (reported
      under `unresolved`), never an alarm
  anything else -> harness error

Self-test on every run: the same crate, built WITHOUT `thread-safe`, must be rejected (else the
obligations are vacuous).

Used as a module by /verif/c20/run.py; `python3 obligations.py quick|thorough` runs it alone.
"""
import json, os, re, subprocess, sys, time

REPO = "/repo"
CRATE = os.path.join(os.path.dirname(os.path.dirname(os.path.abspath(__file__))), "obligations")

VALUE_FEATURES = [
    "hashable-value", "postgres-array", "postgres-vector", "postgres-interval", "with-chrono",
    "with-json", "with-rust_decimal", "with-bigdecimal", "with-uuid", "with-time",
    "with-ipnetwork", "with-mac_address",
]
OTHER_FEATURES = ["derive", "attr"]

# generic declarations: how to instantiate them (anything generic and not listed is reported
# as unlisted, not guessed)
GENERIC_INSTANCES = {
    "SeaRc": ["SeaRc<dyn sea_query::Iden>"],
    "RcOrArc": ["RcOrArc<dyn sea_query::Iden>", "RcOrArc<sea_query::ColumnType>"],
    "Result": [],  # alias of std Result
}
# extra obligations that no `pub struct/enum/type` line declares
EXTRA = [
    "sea_query::DynIden",
    "Box<dyn sea_query::Iden>",
    "Vec<sea_query::Value>",
    "Option<sea_query::SimpleExpr>",
    "(sea_query::DynIden, sea_query::SimpleExpr)",
    "Box<dyn sea_query::QueryStatementBuilder + Send + Sync>",
    "<sea_query::DynIden as sea_query::IdenList>::IntoIter",
    "<(sea_query::DynIden, sea_query::DynIden) as sea_query::IdenList>::IntoIter",
    "<(sea_query::DynIden, sea_query::DynIden, sea_query::DynIden) as sea_query::IdenList>::IntoIter",
]
# value-level obligations: the (unnameable) types public functions hand out
EXTRA_VALUES = [
    ("values_iter", "v: &'static sea_query::Values", "v.iter()"),
    ("select_to_owned", "q: &'static sea_query::SelectStatement", "q.to_owned()"),
    ("build_result", "q: &'static sea_query::SelectStatement", "q.build(sea_query::PostgresQueryBuilder)"),
    ("build_any_result", "q: &'static sea_query::InsertStatement", "q.build_any(&sea_query::MysqlQueryBuilder)"),
    ("cond_any", "", "sea_query::Cond::any()"),
    ("expr_col", "", "sea_query::Expr::col(sea_query::Alias::new(\"a\"))"),
    ("func_call", "", "sea_query::Func::cust(sea_query::Alias::new(\"f\"))"),
    ("case_stmt", "", "sea_query::CaseStatement::new()"),
    ("returning", "", "sea_query::Query::returning().all()"),
]

# Not "statement, expression, condition, value and identifier types" (nor builders of them):
# backends, the SQL tokenizer, writers, error types. Listed in the evidence, not asserted.
OUT_OF_SCOPE = {
    "MysqlQueryBuilder", "MySqlQueryBuilder", "PostgresQueryBuilder", "SqliteQueryBuilder", "CommonSqlQueryBuilder",
    "Tokenizer", "Token", "SqlWriterValues", "Error", "Result", "ValueTypeErr", "Oper", "Mode",
}
OUT_OF_SCOPE_ASSOC = {"Err", "Error"}

DECL = re.compile(r"^\s*pub (struct|enum|type) ([A-Za-z_][A-Za-z0-9_]*)\s*(<[^>]*>)?")


def module_prefix(rel):
    parts = rel.split("/")
    if parts[0] == "extension" and len(parts) > 2:
        return "sea_query::extension::%s::" % parts[1]
    if parts[0] == "error.rs":
        return "sea_query::error::"
    return "sea_query::"


def map_cfg(line):
    """translate a #[cfg(...)] of sea-query into the obligations crate's feature names"""
    s = line.strip()
    s = s.replace('feature = "thread-safe"', 'feature = "ts"')
    s = re.sub(r'feature = "(?!ts")([^"]+)"', r'feature = "f-\1"', s)
    return s


def scan():
    found = []  # (name, path, cfgs, file)
    src = os.path.join(REPO, "src")
    for root, _, files in sorted(os.walk(src)):
        for f in sorted(files):
            if not f.endswith(".rs"):
                continue
            full = os.path.join(root, f)
            rel = os.path.relpath(full, src)
            if rel.startswith("tests_cfg"):
                continue
            lines = open(full, encoding="utf-8").read().split("\n")
            in_test = False
            for i, l in enumerate(lines):
                if l.startswith("#[cfg(test)]"):
                    in_test = True
                if in_test:
                    continue
                m = DECL.match(l)
                if not m:
                    continue
                if l.startswith(" ") or l.startswith("\t"):
                    continue  # nested in a function / inner module: not a crate-level public type
                name, generics = m.group(2), m.group(3)
                cfgs = []
                j = i - 1
                while j >= 0 and (lines[j].strip().startswith("#[") or lines[j].strip().startswith("///") or lines[j].strip() == ""):
                    t = lines[j].strip()
                    if t.startswith("#[cfg("):
                        cfgs.append(map_cfg(t))
                    if t == "":
                        break
                    j -= 1
                found.append((name, module_prefix(rel), cfgs, rel, generics))
    return found


IMPL_FOR = re.compile(r"^impl\s+([A-Za-z_:][A-Za-z0-9_:]*(?:<[^>{]*>)?)\s+for\s+([A-Za-z_][A-Za-z0-9_]*(?:<[^>{]*>)?)\s*(?:where\b.*)?\{?\s*$")
ASSOC = re.compile(r"^\s+type\s+([A-Za-z_][A-Za-z0-9_]*)\s*=")
STD_TRAITS = {
    "IntoIterator": "IntoIterator", "Iterator": "Iterator", "ops::Deref": "std::ops::Deref",
    "Deref": "std::ops::Deref", "std::ops::Deref": "std::ops::Deref", "FromStr": "std::str::FromStr",
    "std::str::FromStr": "std::str::FromStr",
}


def scan_into_iter():
    """associated types of non-generic `impl Trait for Type` blocks: (label, type expr, cfgs, file)"""
    out = []
    src = os.path.join(REPO, "src")
    for root, _, files in sorted(os.walk(src)):
        for f in sorted(files):
            if not f.endswith(".rs"):
                continue
            full = os.path.join(root, f)
            rel = os.path.relpath(full, src)
            if rel.startswith("tests_cfg"):
                continue
            lines = open(full, encoding="utf-8").read().split("\n")
            cur = None
            for i, l in enumerate(lines):
                if l.startswith("#[cfg(test)]"):
                    break
                m = IMPL_FOR.match(l)
                if m:
                    trait, ty = m.group(1), m.group(2)
                    cfgs = []
                    j = i - 1
                    while j >= 0 and lines[j].strip().startswith("#["):
                        if lines[j].strip().startswith("#[cfg("):
                            cfgs.append(map_cfg(lines[j]))
                        j -= 1
                    cur = (trait, ty, cfgs)
                    continue
                if l.startswith("}"):
                    cur = None
                    continue
                a = ASSOC.match(l)
                if a and cur:
                    trait, ty, cfgs = cur
                    if "<" in trait and not trait.startswith("TryFrom") and not trait.startswith("From"):
                        continue
                    tpath = STD_TRAITS.get(trait)
                    if tpath is None:
                        if "<" in trait:
                            # TryFrom<X> etc.: generic parameter types are assumed to be in std's prelude or the crate root
                            tpath = trait
                        else:
                            tpath = module_prefix(rel) + trait
                    typ = ty if "::" in ty else module_prefix(rel) + ty
                    if ty.startswith("SeaRc<"):
                        typ = "sea_query::SeaRc<dyn sea_query::Iden>"
                    out.append(("%s_%s" % (re.sub(r"[^A-Za-z0-9]", "_", ty), a.group(1)), "<%s as %s>::%s" % (typ, tpath, a.group(1)), cfgs, rel))
    return out


USE_AS = re.compile(r"^pub use\s+(.+);\s*$")


def scan_reexports():
    """`pub use path::X as Y;` and `pub use path::{A as B, ..};` at module level: the alias is a
    public name of its own (the declaration may live in a private module under another name)"""
    out = []
    src = os.path.join(REPO, "src")
    for root, _, files in sorted(os.walk(src)):
        for f in sorted(files):
            if not f.endswith(".rs"):
                continue
            full = os.path.join(root, f)
            rel = os.path.relpath(full, src)
            if rel.startswith("tests_cfg"):
                continue
            for l in open(full, encoding="utf-8"):
                if l.startswith("#[cfg(test)]"):
                    break
                m = USE_AS.match(l)
                if not m or " as " not in m.group(1):
                    continue
                for alias in re.findall(r"\bas\s+([A-Z][A-Za-z0-9_]*)", m.group(1)):
                    pre = module_prefix(rel if not rel.endswith("lib.rs") else "x.rs")
                    out.append((alias, pre, [], rel))
    return out


def obligations(found):
    obs = []  # (fn_name, type_expr, cfgs, origin)
    unlisted = []
    seen = set()
    for name, prefix, cfgs, rel, generics in found:
        if name in OUT_OF_SCOPE:
            unlisted.append("%s%s (%s): out of the property's scope (backend / tokenizer / writer / error type)" % (prefix, name, rel))
            continue
        if generics or name in GENERIC_INSTANCES:
            insts = GENERIC_INSTANCES.get(name)
            if insts is None:
                unlisted.append("%s%s%s (%s): generic, no instantiation known" % (prefix, name, generics, rel))
                continue
            for k, t in enumerate(insts):
                t2 = t if t.startswith("sea_query::") or "::" in t.split("<")[0] else prefix + t
                key = (t2, tuple(cfgs))
                if key in seen:
                    continue
                seen.add(key)
                obs.append(("ob_%s_%d" % (name, k), t2, cfgs, rel))
            continue
        t = prefix + name
        key = (t, tuple(cfgs))
        if key in seen:
            continue
        seen.add(key)
        fn = "ob_" + re.sub(r"[^A-Za-z0-9]", "_", prefix[len("sea_query::"):] + name)
        if any(o[0] == fn for o in obs):
            fn += "_%d" % len(obs)
        obs.append((fn, t, cfgs, rel))
    for k, t in enumerate(EXTRA):
        obs.append(("ob_extra_%d" % k, t, [], "extra"))
    # iterator types that public types hand out (`impl IntoIterator for X`): they are part of the
    # value API although no `pub struct` line declares them
    for k, (alias, prefix, cfgs, rel) in enumerate(scan_reexports()):
        obs.append(("ob_reexport_%s_%d" % (alias, k), prefix + alias, cfgs, rel))
    for k, (label, texpr, cfgs, rel) in enumerate(scan_into_iter()):
        ty_name = label.rsplit("_", 1)[0]
        if label.rsplit("_", 1)[-1] in OUT_OF_SCOPE_ASSOC or ty_name in OUT_OF_SCOPE:
            continue
        obs.append(("ob_assoc_%s_%d" % (label, k), texpr, cfgs, rel))
    return obs, unlisted


HEADER = """// GENERATED by /verif/c20/obligations.py from a scan of /repo/src — do not edit.
#![allow(dead_code, non_snake_case, unused_imports, deprecated)]
use std::future::Future;
use std::pin::Pin;
use std::task::{Context, Poll};

pub fn assert_send_sync<T: ?Sized + Send + Sync>() {}
pub fn assert_send_future<F: Future + Send>(_: F) {}
pub fn assert_val<T: Send + Sync>(_: &T) {}

pub struct YieldOnce(bool);
impl Future for YieldOnce {
    type Output = ();
    fn poll(mut self: Pin<&mut Self>, cx: &mut Context<'_>) -> Poll<()> {
        if self.0 { Poll::Ready(()) } else { self.0 = true; cx.waker().wake_by_ref(); Poll::Pending }
    }
}
/// owns a T across an await point
pub async fn hold<T>(t: T) -> T { YieldOnce(false).await; t }
/// keeps a &T alive across an await point
pub async fn hold_ref<T>(t: T) -> T { let r = &t; YieldOnce(false).await; let _ = r; t }
pub fn moved_to_thread<T: Send + 'static>(t: T) { std::thread::spawn(move || drop(t)); }
pub fn shared_with_thread<T: Sync + Send + 'static>(t: std::sync::Arc<T>) { std::thread::spawn(move || drop(t)); }

"""


def generate(obs, dropped):
    out = [HEADER]
    lines_of = {}
    n = HEADER.count("\n") + 1
    for fn, t, cfgs, origin in obs:
        if fn in dropped:
            continue
        sized = not (t.startswith("Box<dyn") and False)
        body = []
        for c in cfgs:
            body.append(c)
        body.append("pub fn %s() { assert_send_sync::<%s>(); }" % (fn, t))
        if "dyn " not in t or t.startswith("Box<") or t.startswith("sea_query::SeaRc") or t.startswith("sea_query::RcOrArc") or t.startswith("sea_query::DynIden"):
            for c in cfgs:
                body.append(c)
            body.append("pub fn %s__await(x: %s, y: %s) { assert_send_future(hold(x)); assert_send_future(hold_ref(y)); }" % (fn, t, t))
            for c in cfgs:
                body.append(c)
            body.append("pub fn %s__threads(x: %s, y: std::sync::Arc<%s>) { moved_to_thread(x); shared_with_thread(y); }" % (fn, t, t))
        for b in body:
            lines_of[n] = fn
            out.append(b + "\n")
            n += 1
    lines_of[n] = "ob_selftest_negative"
    out.append("#[cfg(feature = \"selftest-negative\")] pub fn ob_selftest_negative() { assert_send_sync::<std::rc::Rc<std::cell::Cell<u8>>>(); }\n")
    n += 1
    for name, params, expr in EXTRA_VALUES:
        fn = "ob_value_" + name
        if fn in dropped:
            continue
        lines_of[n] = fn
        out.append("pub fn %s(%s) { let x = %s; assert_val(&x); assert_send_future(hold(x)); }\n" % (fn, params, expr))
        n += 1
    open(os.path.join(CRATE, "src/lib.rs"), "w").write("".join(out))
    return lines_of


def cargo_check(features):
    env = dict(os.environ, CARGO_NET_OFFLINE="true")
    cmd = ["cargo", "check", "--message-format=json", "--features", ",".join(features)] if features else ["cargo", "check", "--message-format=json"]
    p = subprocess.run(cmd, cwd=CRATE, env=env, capture_output=True, text=True)
    msgs = []
    for l in p.stdout.splitlines():
        try:
            j = json.loads(l)
        except Exception:
            continue
        if j.get("reason") == "compiler-message":
            msgs.append(j)
    return p.returncode, msgs, p.stderr


THREAD_MSG = ("cannot be sent between threads safely", "cannot be shared between threads safely")
DROP_CODES = {"E0412", "E0433", "E0107", "E0425", "E0603", "E0432", "E0404", "E0405", "E0782", "E0576", "E0220", "E0223", "E0191", "E0599", "E0061", "E0308", "E0423"}


def classify(msgs, lines_of):
    """-> (thread_errors[(fn, text)], droppable[fn], other_errors[text], foreign_errors[text])"""
    thread, drop, other, foreign = [], [], [], []
    for j in msgs:
        m = j["message"]
        if m.get("level") != "error":
            continue
        code = (m.get("code") or {}).get("code")
        text = m.get("message", "")
        in_ob = j.get("target", {}).get("name") == "obligations"
        if not in_ob:
            foreign.append("%s: %s" % (j.get("target", {}).get("name"), text))
            continue
        if text.startswith("aborting due to") or text.startswith("could not compile"):
            continue
        fn = None
        for sp in m.get("spans", []):
            if sp.get("is_primary") and sp.get("file_name", "").endswith("src/lib.rs"):
                fn = lines_of.get(sp["line_start"])
        if code == "E0277" and any(t in text for t in THREAD_MSG):
            notes = " | ".join(c.get("message", "") for c in m.get("children", [])[:6])
            thread.append((fn, text + " :: " + notes))
        elif code in DROP_CODES and fn:
            drop.append(fn)
        else:
            other.append("%s %s (%s)" % (code, text, fn))
    return thread, sorted(set(drop)), other, foreign


def feature_sets(tier):
    allv = ["f-" + f for f in VALUE_FEATURES]
    sets = [[], ["f-hashable-value"], allv + ["f-derive", "f-attr"]]
    if tier == "thorough":
        sets = [[]] + [["f-" + f] for f in VALUE_FEATURES + OTHER_FEATURES] + [allv, allv + ["f-derive", "f-attr"]]
    return sets


def run(tier):
    t0 = time.time()
    found = scan()
    obs, unlisted = obligations(found)
    result = {
        "scanned_public_types": len(found),
        "unlisted_types": unlisted,
        "feature_sets": [],
        "violations": [],
        "harness_errors": [],
        "unresolved": [],
    }
    dropped = set()
    total_obl = 0
    total_dis = 0
    samples = []
    all_dropped = set()
    for fs in feature_sets(tier):
        feats = ["ts"] + fs
        dropped = set()  # a name may resolve under one feature set and not under another
        # resolve paths: drop obligations whose path does not resolve, up to 4 rounds
        for _ in range(4):
            lines_of = generate(obs, dropped)
            rc, msgs, stderr = cargo_check(feats)
            thread, drop, other, foreign = classify(msgs, lines_of)
            if drop and not thread:
                dropped |= set(drop)
                continue
            break
        n_obl = len(set(lines_of.values()))
        entry = {"features": feats, "obligations": n_obl, "discharged": n_obl if rc == 0 else n_obl - len(set(f for f, _ in thread)), "ok": rc == 0}
        result["feature_sets"].append(entry)
        total_obl += n_obl
        total_dis += entry["discharged"]
        if thread:
            for fn, text in thread:
                ty = next((t for f, t, _, _ in obs if f == fn), "?")
                result["violations"].append({"features": feats, "obligation": fn, "type": ty, "diagnostic": text[:600]})
        elif rc != 0:
            if foreign:
                result["harness_errors"].append({"features": feats, "what": "sea-query itself does not compile with these features", "errors": foreign[:5]})
            else:
                result["harness_errors"].append({"features": feats, "what": "unexpected errors in the obligations crate", "errors": other[:5], "stderr": stderr[-400:]})
        if not samples:
            samples = [{"obligation": f, "type": t, "cfg": c, "declared_in": o} for f, t, c, o in obs if f not in dropped][:8]
        all_dropped |= dropped
    result["unresolved"] = sorted(all_dropped)
    dropped = set()
    # self-test of the mechanism, independent of sea-query: an obligation on a type that is
    # certainly not Send + Sync (feature `selftest-negative`) must be rejected with E0277
    lines_of = generate(obs, dropped)
    rc, msgs, _ = cargo_check(["ts", "selftest-negative"])
    thread, _, _, _ = classify(msgs, lines_of)
    result["selftest_negative_obligation_rejected"] = (rc != 0 and any(fn == "ob_selftest_negative" for fn, _ in thread))
    if not result["selftest_negative_obligation_rejected"]:
        result["harness_errors"].append({"what": "the obligation mechanism accepted a type that is not Send + Sync"})
    # informational: today the same crate is rejected without `thread-safe` (identifiers are Rc-based
    # there); if upstream ever makes them Send + Sync unconditionally this simply becomes false
    rc, msgs, _ = cargo_check([])
    thread, _, _, _ = classify(msgs, lines_of)
    result["selftest_without_thread_safe_rejected"] = (rc != 0 and len(thread) > 0)
    result["selftest_rejected_obligations"] = len(set(f for f, _ in thread))
    # leave the crate in the generated state for thread-safe (what a replay recompiles)
    generate(obs, dropped)
    result["obligations_total"] = total_obl
    result["discharged_total"] = total_dis
    result["distinct_types"] = len([1 for f, _, _, _ in obs if f not in dropped])
    result["samples"] = samples
    result["wall_s"] = time.time() - t0
    return result


if __name__ == "__main__":
    r = run(sys.argv[1] if len(sys.argv) > 1 else "quick")
    print(json.dumps({k: v for k, v in r.items() if k != "samples"}, indent=1)[:6000])
    sys.exit(1 if r["violations"] else (2 if r["harness_errors"] else 0))
