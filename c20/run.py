#!/usr/bin/env python3
"""C20 driver: A compile-time obligations, B shuttle thread simulation, C Miri seeded schedules.
   run.py quick|thorough          -> evidence/C20.json, exit 0/1/2
   run.py --replay <file>
"""
import json, os, re, subprocess, sys, time, glob

sys.path.insert(0, os.path.dirname(__file__))
import obligations as ob

ROOT = os.path.dirname(os.path.dirname(os.path.abspath(__file__)))
SIM = ROOT + "/sim"
SEED = int(os.environ.get("VERIF_SEED", "20240601"))
THREADS = os.environ.get("VERIF_THREADS", "16")
ENV = dict(os.environ, CARGO_NET_OFFLINE="true")


def sh(cmd, cwd=None, env=None, timeout=None):
    return subprocess.run(cmd, shell=True, cwd=cwd, env=env or ENV, capture_output=True, text=True, timeout=timeout)


def build_thsim():
    r = sh("cargo build --release --features shuttle-mode --bin thsim --target-dir target-ts", cwd=SIM)
    if r.returncode != 0:
        return r.stderr[-3000:]
    return None


def thsim_crash_triage(rc, schedules):
    """thsim was killed by a signal: memory unsafety reached through the thread scenarios. Find the
    program, confirm it dies twice alone in a fresh process while its thread-free execution (also a
    fresh process) completes, and report it."""
    import glob
    cands = set()
    for f in glob.glob(f"{SIM}/target-ts/progress-thsim/worker-*"):
        try:
            cands.add(int(open(f).read().strip() or -1))
        except Exception:
            pass
    for p in sorted(c for c in cands if c >= 0):
        cmd = f"./target-ts/release/thsim run --programs 1 --first-program {p} --schedules {schedules} --seed {SEED} --threads 1 --replay-dir {ROOT}/replays"
        r1 = sh(cmd, cwd=SIM)
        if not (r1.returncode < 0 or r1.returncode >= 128):
            continue
        r2 = sh(cmd, cwd=SIM)
        rb = sh(cmd + " --baseline-only", cwd=SIM)
        if r2.returncode == r1.returncode and rb.returncode == 0:
            path = f"{ROOT}/replays/C20/thsim-crash-{SEED}-{p}.json"
            json.dump({"property": "C20", "mode": "thsim-crash", "seed": SEED, "program": p, "schedules": schedules, "exit": r1.returncode,
                       "what": "exploring this generated thread scenario under shuttle kills the process with a signal (twice, alone, in fresh processes) while the same scenario without threads completes: memory unsafety that needs interleaved access"}, open(path, "w"), indent=1)
            print(f"thsim: program {p} (seed {SEED}) kills the process (exit {r1.returncode}) under interleaving; its thread-free execution completes")
            return {"crash_program": p, "exit": r1.returncode}, 1, f"VIOLATION property=C20 replay={path}"
    return {"error": "thsim died from a signal but no single program reproduces it", "exit": rc}, 2, None


def part_b(tier, out):
    err = build_thsim()
    if err:
        # does sea-query itself fail to build with thread-safe, or is it a Send/Sync error in the harness?
        thread_err = ("cannot be sent between threads safely" in err) or ("cannot be shared between threads safely" in err)
        return {"build_failed": True, "thread_error_in_build": thread_err, "stderr": err}, (1 if thread_err else 2), None
    programs, schedules = (10000, 10) if tier == "quick" else (150000, 40)
    outf = SIM + "/target-ts/thsim-summary.json"
    if os.path.exists(outf):
        os.remove(outf)
    try:
        r = sh(f"./target-ts/release/thsim run --programs {programs} --schedules {schedules} --seed {SEED} --threads {THREADS} --replay-dir {ROOT}/replays --out {outf} --progress-dir {SIM}/target-ts/progress-thsim", cwd=SIM,
               timeout=300 if tier == "quick" else 5400)
    except subprocess.TimeoutExpired:
        sh("pkill -KILL -f 'target-ts/release/thsim run'")
        return ({"blocked": True,
                 "what": "thsim did not finish: an OS-level lock (not a shuttle primitive) is held across a seam callback, so the suspended shuttle task that holds it can never be resumed by the task that waits for it on the same OS thread. Real threads would not deadlock here, so this is reported as a harness limitation (inconclusive), never as a violation; Miri (real threads) still runs."},
                3, None)
    sys.stdout.write(r.stdout)
    if r.returncode < 0 or r.returncode >= 128:
        return thsim_crash_triage(r.returncode, schedules)
    try:
        summ = json.load(open(outf))
    except Exception:
        summ = {"error": r.stderr[-2000:]}
    viol = None
    for l in r.stdout.splitlines():
        if l.startswith("VIOLATION"):
            viol = l
    code = r.returncode if r.returncode in (0, 1) else 2
    if code == 2:
        summ["stderr"] = r.stderr[-2000:]
    if code == 0 and summ.get("programs_failing_without_threads", 0) * 2 > programs:
        summ["what"] = "more than half of the generated scenarios fail with no threads at all: nothing can be said about thread-safety on this tree (the value-operation checks of C15 are the place to look)"
        return summ, 2, None
    return summ, code, viol


def part_b2(tier):
    """S1 pipelines on real threads, natively: build on one thread, mutate on a second, render on a
    third — never two threads at once, hence deterministic. Reaches per-thread state
    (thread_local!), which shuttle cannot show because all its tasks share one OS thread."""
    r = sh("cargo build --release --features shuttle-mode --bin miri_scn --target-dir target-ts", cwd=SIM)
    if r.returncode != 0:
        return {"build_failed": True, "stderr": r.stderr[-1500:]}, 2, None
    n = 20000 if tier == "quick" else 200000
    try:
        r = sh(f"./target-ts/release/miri_scn {SEED} 0 {n} pipeline", cwd=SIM, timeout=600 if tier == "quick" else 7200)
    except subprocess.TimeoutExpired:
        return {"blocked": True}, 2, None
    res = {"pipelines": n, "exit": r.returncode}
    if r.returncode == 0:
        return res, 0, None
    if r.returncode == 3:
        res["harness_trouble"] = [l for l in r.stdout.splitlines() if "HARNESS-TROUBLE" in l][:3]
        return res, 2, None
    findings = [l for l in r.stdout.splitlines() if "FINDINGS" in l]
    progs = sorted(set(int(m.group(1)) for m in (re.match(r"program (\d+) ", l) for l in findings) if m))
    real = []
    for pnum in progs[:200]:
        rb = sh(f"./target-ts/release/miri_scn {SEED} {pnum} 1 pipeline-baseline", cwd=SIM)
        if rb.returncode == 0:
            real.append(pnum)
    res["programs_with_findings"] = len(progs)
    res["of_which_clean_without_threads"] = real
    if not findings:
        res["stderr"] = r.stderr[-1500:]
        return res, 2, None
    if not real:
        res["note"] = "mismatches also occur without threads: not a C20 matter"
        return res, 0, None
    path = f"{ROOT}/replays/C20/pipeline-{SEED}.json"
    first = [l for l in findings if l.startswith(f"program {real[0]} ")]
    json.dump({"property": "C20", "mode": "pipeline", "seed": SEED, "program": real[0], "finding": first[:1]}, open(path, "w"), indent=1)
    print("pipeline:", first[0][:300])
    return res, 1, f"VIOLATION property=C20 replay={path}"


# only what is a verdict about the program's memory / thread safety; "unsupported operation",
# leaks, deadlocks of the harness's own gates etc. are Miri or harness limitations (exit 2)
MIRI_ERR = re.compile(r"error: (Undefined Behavior|.*[Dd]ata race)")


def part_c(tier, out):
    seeds, programs = (16, 5) if tier == "quick" else (64, 24)
    flags = f"-Zmiri-many-seeds=0..{seeds} -Zmiri-preemption-rate=0.1 -Zmiri-disable-isolation"
    env = dict(ENV, MIRIFLAGS=flags)
    t0 = time.time()
    res = {"miri_seeds": seeds, "programs": programs, "program_executions_ok": 0, "flags": flags,
           "one_program_per_process": True}
    # one program per Miri process: every execution starts with untouched process-global state,
    # so lazily initialised statics see a contended first use in every execution
    for prog in range(programs):
        try:
            r = sh(f"cargo +nightly miri run --features threads --bin miri_scn --target-dir target-miri -- {SEED} {prog} 1", cwd=SIM, env=env, timeout=3600)
        except subprocess.TimeoutExpired:
            res["wall_s"] = time.time() - t0
            res["timeout_program"] = prog
            return res, 2, None
        text = r.stdout + "\n" + r.stderr
        res["program_executions_ok"] += len([l for l in r.stdout.splitlines() if l.endswith(" ok")])
        if r.returncode == 0:
            continue
        res["wall_s"] = time.time() - t0
        res["exit"] = r.returncode
        findings = [l for l in text.splitlines() if "FINDINGS" in l]
        ub = [l for l in text.splitlines() if MIRI_ERR.search(l)]
        if findings and not ub:
            # a lineage mismatch: is it there without any thread too (fresh native process)? then
            # it is not a thread-safety matter and is not reported under C20
            bb = sh("cargo build --release --features shuttle-mode --bin miri_scn --target-dir target-ts", cwd=SIM)
            if bb.returncode != 0:
                res["stderr"] = bb.stderr[-2000:]
                return res, 2, None
            rb = sh(f"./target-ts/release/miri_scn {SEED} {prog} 1 baseline", cwd=SIM)
            if rb.returncode != 0:
                res.setdefault("programs_failing_without_threads", []).append(prog)
                continue
            # Does it also fail under cooperative interleavings on ONE OS thread (shuttle), and
            # there only when a clone shares structure with its source? Then it is an order
            # dependence between aliasing handles (value operations, C15), not thread-safety.
            # A mismatch that shuttle cannot reproduce needs true preemption: thread-safety.
            if build_thsim() is None:
                outf = SIM + "/target-ts/thsim-small.json"
                rs = sh(f"./target-ts/release/thsim run --small --first-program {prog} --programs 1 --schedules 400 --seed {SEED} --threads 1 --replay-dir {ROOT}/replays --out {outf}", cwd=SIM, timeout=600)
                try:
                    sm = json.load(open(outf))
                except Exception:
                    sm = {}
                if rs.returncode == 0 and sm.get("programs_failing_only_with_clone_sharing", 0) > 0:
                    res.setdefault("programs_failing_only_with_clone_sharing", []).append(prog)
                    continue
        if findings or ub:
            os.makedirs(ROOT + "/replays/C20", exist_ok=True)
            path = f"{ROOT}/replays/C20/miri-{SEED}.json"
            m = re.search(r"FAILING SEED: (\d+)", text) or re.search(r"seed[:= ]+(\d+)", text)
            json.dump({"property": "C20", "mode": "miri", "seed": SEED, "program": prog, "programs": 1, "miri_flags": flags,
                       "failing_miri_seed": int(m.group(1)) if m else None,
                       "diagnostics": (ub + findings)[:20], "output_tail": text[-6000:]}, open(path, "w"), indent=1)
            res["diagnostics"] = (ub + findings)[:5]
            print("Miri:", (ub + findings)[0][:300])
            return res, 1, f"VIOLATION property=C20 replay={path}"
        res["stderr"] = text[-3000:]
        return res, 2, None
    res["wall_s"] = time.time() - t0
    res["exit"] = 0
    return res, 0, None


def main():
    if len(sys.argv) > 2 and sys.argv[1] == "--replay":
        return replay(sys.argv[2])
    tier = sys.argv[1] if len(sys.argv) > 1 else "quick"
    t0 = time.time()
    os.makedirs(ROOT + "/evidence", exist_ok=True)
    os.makedirs(ROOT + "/replays/C20", exist_ok=True)
    code = 0
    viol_lines = []

    a = ob.run(tier)
    if a["violations"]:
        path = f"{ROOT}/replays/C20/obligations-{SEED}.json"
        json.dump({"property": "C20", "mode": "obligations", "violations": a["violations"]}, open(path, "w"), indent=1)
        v = a["violations"][0]
        print(f"obligation {v['obligation']} ({v['type']}) with features {v['features']}: {v['diagnostic'][:300]}")
        viol_lines.append(f"VIOLATION property=C20 replay={path}")
        code = 1
    elif a["harness_errors"]:
        print("HARNESS (obligations):", json.dumps(a["harness_errors"])[:1500], file=sys.stderr)
        code = 2

    b, cb, vb = ({}, 0, None)
    c, cc, vc = ({}, 0, None)
    blocked = False
    if code != 2:
        b, cb, vb = part_b(tier, None)
        if cb == 3:
            blocked = True
            print("HARNESS (thsim): inconclusive —", b["what"], file=sys.stderr)
        elif cb == 1:
            if vb is None:
                path = f"{ROOT}/replays/C20/build-{SEED}.json"
                json.dump({"property": "C20", "mode": "build", "stderr": b.get("stderr", "")}, open(path, "w"), indent=1)
                vb = f"VIOLATION property=C20 replay={path}"
                print("the thread harness does not compile against /repo with thread-safe: a statement type is not Send/Sync")
            viol_lines.append(vb)
            code = 1
        elif cb == 2 and code == 0:
            print("HARNESS (thsim):", json.dumps(b)[:1500], file=sys.stderr)
            code = 2
    b2 = {}
    if code == 0:
        b2, c2, v2 = part_b2(tier)
        if c2 == 1:
            viol_lines.append(v2)
            code = 1
        elif c2 == 2:
            print("HARNESS (pipelines):", json.dumps(b2)[:1500], file=sys.stderr)
            code = 2
    if code == 0:
        c, cc, vc = part_c(tier, None)
        if cc == 1:
            viol_lines.append(vc)
            code = 1
        elif cc == 2:
            print("HARNESS (miri):", json.dumps(c)[:2000], file=sys.stderr)
            code = 2
    if blocked and code == 0:
        code = 2

    wall = time.time() - t0
    evals = a["obligations_total"] + int(b.get("executions", 0) or 0) + int(c.get("program_executions_ok", 0) or 0)
    distinct = a["distinct_types"] + int(b.get("distinct_interleavings", 0) or 0)
    samples = a["samples"][:4] + (b.get("samples") or [])[:1]
    b.pop("samples", None)
    ev = {
        "property_id": "C20",
        "tier": tier,
        "seed": SEED,
        "level": "exploration",
        "coverage": {
            "evaluations": evals,
            "distinct_nontrivial": distinct,
            "rule": "evaluations = compile-time obligations checked by rustc (one per scanned public type and feature set: T: Send + Sync, a future holding T / &T across an await is Send, T moved to / shared with a spawned thread) + shuttle executions of generated thread scenarios (pipeline, shared render, clone fan-out, await migration) + Miri executions; distinct non-trivial = distinct public types with an obligation + distinct shuttle schedules of scenarios in which at least two threads touch one Arc-shared statement (every scenario does)",
            "samples": samples,
            "obligations": a["obligations_total"],
            "discharged": a["discharged_total"],
            "checker_cmd": "cargo check --message-format=json (rustc auto-trait resolution) on /verif/obligations",
            "trusted_base": ["rustc", "shuttle 0.9.3", "Miri (nightly)", "scan of /repo/src for public types"],
            "part_A_obligations": {k: v for k, v in a.items() if k != "samples"},
            "part_B_shuttle": b,
            "part_B2_native_pipelines": b2,
            "part_C_miri": c,
            "simulated_time": f"{b.get('executions', 0)} shuttle executions (the system has no clock)",
            "real_components": ["sea-query with feature thread-safe (current /repo working tree)", "std::sync::Arc", "rustc trait solver"],
            "simulated_components": ["thread scheduler (shuttle Random + PCT; Miri seeded preemption)", "channels / mutex / mini executor", "SimIden, SimWriter, SimIter seams"],
        },
        "assumptions": [
            "type-level clause: decided by rustc for the scanned types x listed feature sets",
            "behavioural clause: seeded sampling of schedules; a clean batch is evidence, not proof",
            "std Arc has no shuttle scheduling points: shuttle explores interleavings at seam callbacks and channel operations, Miri explores the rest",
        ],
        "wall_s": wall,
        "violations": 1 if code == 1 else 0,
    }
    json.dump(ev, open(ROOT + "/evidence/C20.json", "w"), indent=1)
    for v in viol_lines:
        print(v)
    print(f"C20: {a['obligations_total']} obligations over {len(a['feature_sets'])} feature sets, {b.get('executions', 0)} shuttle executions, {c.get('program_executions_ok', 0)} Miri executions, {wall:.0f}s, exit {code}")
    return code


def replay(path):
    tr = json.load(open(path))
    mode = tr.get("mode")
    if mode == "shuttle":
        err = build_thsim()
        if err:
            print("HARNESS: build failed", err[-500:], file=sys.stderr)
            return 2
        r = sh(f"./target-ts/release/thsim replay {path}", cwd=SIM)
        sys.stdout.write(r.stdout)
        sys.stderr.write(r.stderr[-2000:])
        return r.returncode
    if mode == "thsim-crash":
        err = build_thsim()
        if err:
            print("HARNESS: build failed", err[-500:], file=sys.stderr)
            return 2
        cmd = f"./target-ts/release/thsim run --programs 1 --first-program {tr['program']} --schedules {tr['schedules']} --seed {tr['seed']} --threads 1 --replay-dir {ROOT}/replays"
        r = sh(cmd, cwd=SIM)
        if r.returncode < 0 or r.returncode >= 128:
            print(f"program {tr['program']} kills the process again (exit {r.returncode})")
            print(f"VIOLATION property=C20 replay={path}")
            return 1
        print("thsim-crash replay completes on this tree")
        return 0 if r.returncode == 0 else r.returncode
    if mode in ("obligations", "build"):
        a = ob.run("thorough" if mode == "obligations" else "quick")
        if a["violations"]:
            for v in a["violations"][:5]:
                print(f"obligation {v['obligation']} ({v['type']}) features {v['features']}: {v['diagnostic'][:200]}")
            print(f"VIOLATION property=C20 replay={path}")
            return 1
        if mode == "build":
            err = build_thsim()
            if err and ("between threads safely" in err):
                print(err[-1500:])
                print(f"VIOLATION property=C20 replay={path}")
                return 1
        print("obligations hold on this tree")
        return 0
    if mode == "pipeline":
        sh("cargo build --release --features shuttle-mode --bin miri_scn --target-dir target-ts", cwd=SIM)
        r = sh(f"./target-ts/release/miri_scn {tr['seed']} {tr['program']} 1 pipeline", cwd=SIM)
        rb = sh(f"./target-ts/release/miri_scn {tr['seed']} {tr['program']} 1 pipeline-baseline", cwd=SIM)
        sys.stdout.write(r.stdout[-1500:])
        if r.returncode == 1 and rb.returncode == 0:
            print(f"VIOLATION property=C20 replay={path}")
            return 1
        print("pipeline replay clean on this tree")
        return 0
    if mode == "miri":
        s = tr.get("failing_miri_seed")
        flags = tr["miri_flags"] if s is None else f"-Zmiri-seed={s} -Zmiri-preemption-rate=0.1 -Zmiri-disable-isolation"
        r = sh(f"cargo +nightly miri run --features threads --bin miri_scn --target-dir target-miri -- {tr['seed']} {tr.get('program', 0)} {tr['programs']}", cwd=SIM, env=dict(ENV, MIRIFLAGS=flags))
        text = r.stdout + r.stderr
        if r.returncode != 0 and (MIRI_ERR.search(text) or "FINDINGS" in text):
            print(text[-2000:])
            print(f"VIOLATION property=C20 replay={path}")
            return 1
        print("miri replay clean on this tree")
        return 0 if r.returncode == 0 else 2
    print("HARNESS: unknown replay mode", file=sys.stderr)
    return 2


if __name__ == "__main__":
    sys.exit(main())
