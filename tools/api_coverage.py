#!/usr/bin/env python3
"""Which public builder methods of sea-query have no operation in the simulator's vocabulary?
Scans /repo/src for `pub fn name(&mut self` / `pub fn name(mut self` / `pub fn name(self` inside
`impl X` blocks of the builder families and looks for `.name(` / `::name(` in sim/src/*.rs."""
import re, os, glob, json
FAMS = ["SelectStatement","WindowStatement","UpdateStatement","DeleteStatement","InsertStatement","OnConflict","WithClause",
        "CommonTableExpression","WithQuery","TableCreateStatement","TableAlterStatement","TableDropStatement","TableRenameStatement",
        "TableTruncateStatement","ColumnDef","IndexCreateStatement","IndexDropStatement","TableIndex","ForeignKeyCreateStatement",
        "ForeignKeyDropStatement","TableForeignKey","TypeCreateStatement","TypeDropStatement","TypeAlterStatement",
        "ExtensionCreateStatement","ExtensionDropStatement","OrderedStatement","ConditionalStatement","OverStatement",
        "MySqlSelectStatementExt","PostgresSelectStatementExt"]
sim = "\n".join(open(f).read() for f in glob.glob("/verif/sim/src/*.rs") + glob.glob("/verif/sim/src/bin/*.rs"))
out = {}
for root, _, files in os.walk("/repo/src"):
    for f in files:
        if not f.endswith(".rs"): continue
        cur = None
        for l in open(os.path.join(root, f), encoding="utf-8"):
            m = re.match(r"^(?:impl(?:<[^>]*>)?\s+(?:[\w:]+\s+for\s+)?(\w+)|pub trait (\w+))", l)
            if m:
                cur = m.group(1) or m.group(2)
                continue
            if l.startswith("}"): cur = None
            m = re.match(r"^\s+(?:pub )?fn (\w+)(?:<[^>]*>)?\(\s*(&mut self|mut self|self)\b", l)
            if m and cur in FAMS:
                name = m.group(1)
                if name.startswith("prepare") or name in ("build","build_any","build_collect","build_collect_any","build_collect_into","build_collect_any_into","to_string","into_sub_query_statement","build_ref","build_collect_ref"): continue
                used = re.search(r"[.:]%s\(" % re.escape(name), sim) is not None
                out.setdefault(cur, {})[name] = used
missing = {k: sorted(n for n, u in v.items() if not u) for k, v in out.items()}
missing = {k: v for k, v in missing.items() if v}
total = sum(len(v) for v in out.values()); cov = sum(sum(1 for u in v.values() if u) for v in out.values())
print(json.dumps({"builder_methods": total, "with_an_operation": cov, "without": missing}, indent=1))
