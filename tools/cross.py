#!/usr/bin/env python3
"""Cross-attribution matrix: every stored seeded defect against the checks of the OTHER two
properties. Expected: exit 0 (the defect is not that property's business). Exit 1 = an alarm
under the wrong property; exit 2 = that check could not decide on this tree."""
import json, glob, os, subprocess, sys, time
def sh(c): return subprocess.run(c, shell=True, capture_output=True, text=True)
assert sh("git -C /repo status --porcelain").stdout.strip() == ""
only = sys.argv[1:]
rows = []
for d in sorted(glob.glob("/verif/seeded/C*/")):
    sid = os.path.basename(d.rstrip("/"))
    if only and not any(sid.startswith(o) for o in only): continue
    prop = json.load(open(d + "meta.json"))["property"]
    sh(f"git -C /repo apply {d}patch.diff")
    try:
        for other in ("C10", "C15", "C20"):
            if other == prop: continue
            t = time.time()
            r = sh(f"cd /verif && ./check {other} quick")
            why = [l for l in r.stdout.splitlines() if l.startswith("violation in") or l.startswith("obligation ") or l.startswith("Miri:") or l.startswith("pipeline:") or l.startswith("thsim:")]
            print(f"{sid:10s} breaks {prop}; ./check {other}: exit={r.returncode} {(why[0][:220] if why else '') if r.returncode == 1 else (r.stderr[-200:].replace(chr(10),' ') if r.returncode == 2 else '')} ({time.time()-t:.0f}s)", flush=True)
    finally:
        sh("git -C /repo checkout -- . && git -C /repo clean -fdq src")
sh("git -C /verif checkout -- evidence")
