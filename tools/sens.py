#!/usr/bin/env python3
"""Sensitivity self-test: apply small property-breaking edits to /repo one at a time, run the
quick check, expect exit 1, and always restore /repo. Usage: tools/sens.py [name ...]"""
import subprocess, sys, os, time
MUTANTS = [
 ("sel_take_leaves_lock", "C15", "src/query/select.rs", "lock: self.lock.take(),", "lock: self.lock.clone(),"),
 ("sel_take_drops_window", "C15", "src/query/select.rs", "window: self.window.take(),", "window: { self.window.take(); None },"),
 ("sel_take_forgets_index_hints", "C15", "src/query/select.rs", "index_hints: std::mem::take(&mut self.index_hints),", "index_hints: Vec::new(),"),
 ("clear_selects_resets_distinct", "C15", "src/query/select.rs", "self.selects = Vec::new();\n        self", "self.selects = Vec::new();\n        self.distinct = None;\n        self"),
 ("from_clear_clears_joins", "C15", "src/query/select.rs", "self.from.clear();\n        self", "self.from.clear();\n        self.join.clear();\n        self"),
 ("reset_limit_resets_offset", "C15", "src/query/select.rs", "self.limit = None;\n        self", "self.limit = None;\n        self.offset = None;\n        self"),
 ("upd_clear_order_clears_limit", "C15", "src/query/update.rs", "self.orders = Vec::new();\n        self", "self.orders = Vec::new();\n        self.limit = None;\n        self"),
 ("tc_take_drops_comment", "C15", "src/table/create.rs", "comment: std::mem::take(&mut self.comment),", "comment: None,"),
 ("tfk_take_drops_on_update", "C15", "src/foreign_key/common.rs", "on_update: self.on_update.take(),", "on_update: None,"),
 ("win_take_keeps_frame_only", "C15", "src/query/window.rs", "order_by: std::mem::take(&mut self.order_by),", "order_by: Vec::new(),"),
 ("ic_take_loses_include", "C15", "src/index/create.rs", "include_columns: self.include_columns.clone(),", "include_columns: vec![],"),
 ("ts_rc_instead_of_arc", "C20", "src/types.rs", "#[cfg(feature = \"thread-safe\")]\npub type RcOrArc<T> = std::sync::Arc<T>;", "#[cfg(feature = \"thread-safe\")]\npub type RcOrArc<T> = std::rc::Rc<T>;"),
 ("ts_iden_without_send_sync", "C20", "src/types.rs", "#[cfg(feature = \"thread-safe\")]\niden_trait!(Send, Sync);", "#[cfg(feature = \"thread-safe\")]\niden_trait!();"),
 ("ts_array_rc", "C20", "src/table/column.rs", [("    Array(RcOrArc<ColumnType>),", "    Array(std::rc::Rc<ColumnType>),"), ("self.types = Some(ColumnType::Array(RcOrArc::new(elem_type)));", "self.types = Some(ColumnType::Array(std::rc::Rc::new(elem_type)));")], None),
 ("ts_searc_rc_unsafe_impl", "C20", "src/types.rs", [
    ("pub struct SeaRc<I>(pub(crate) RcOrArc<I>)\nwhere\n    I: ?Sized;", "pub struct SeaRc<I>(pub(crate) std::rc::Rc<I>)\nwhere\n    I: ?Sized;\nunsafe impl<I: ?Sized> Send for SeaRc<I> {}\nunsafe impl<I: ?Sized> Sync for SeaRc<I> {}"),
    ("SeaRc(RcOrArc::clone(&self.0))", "SeaRc(std::rc::Rc::clone(&self.0))"),
    ("SeaRc(RcOrArc::new(i))", "SeaRc(std::rc::Rc::new(i))")], None),
 ("ts_global_placeholder_counter", "C20", "src/prepare.rs", "    fn push_param(&mut self, value: Value, _: &dyn QueryBuilder) {\n        self.counter += 1;", "    fn push_param(&mut self, value: Value, _: &dyn QueryBuilder) {\n        static COUNTER: std::sync::atomic::AtomicUsize = std::sync::atomic::AtomicUsize::new(0);\n        if self.counter == 0 { COUNTER.store(0, std::sync::atomic::Ordering::SeqCst); }\n        self.counter = COUNTER.fetch_add(1, std::sync::atomic::Ordering::SeqCst) + 1;"),
 ("values_lt_check", "C10", "src/query/insert.rs", "if self.columns.len() != values.len() {", "if self.columns.len() < values.len() {"),
 ("values_push_before_check", "C10", "src/query/insert.rs", "let values = values.into_iter().collect::<Vec<SimpleExpr>>();\n        if self.columns.len() != values.len() {", "let values = values.into_iter().collect::<Vec<SimpleExpr>>();\n        if !values.is_empty() && self.columns.len() > values.len() { if let Some(InsertValueSource::Values(v)) = &mut self.source { v.push(values.clone()); } }\n        if self.columns.len() != values.len() {"),
 ("select_from_unchecked_zero", "C10", "src/query/insert.rs", "if self.columns.len() != statement.selects.len() {", "if self.columns.len() != statement.selects.len() && !statement.selects.is_empty() {"),
 ("select_from_assign_before_check", "C10", "src/query/insert.rs", "let statement = select.into();\n\n        if", "let statement: SelectStatement = select.into();\n        self.source = Some(InsertValueSource::Select(Box::new(statement.clone())));\n\n        if"),
 ("select_from_counts_swapped", "C10", "src/query/insert.rs", "col_len: self.columns.len(),\n                val_len: statement.selects.len(),", "col_len: statement.selects.len(),\n                val_len: self.columns.len(),"),
 ("empty_row_pushed", "C10", "src/query/insert.rs", "if !values.is_empty() {\n            let values_source", "if true {\n            let values_source"),
 ("row_replaces_at_3", "C10", "src/query/insert.rs", "values_source.push(values);", "if values_source.len() >= 3 { values_source.pop(); } values_source.push(values);"),
]
def sh(cmd, **kw):
    return subprocess.run(cmd, shell=True, capture_output=True, text=True, **kw)
def main():
    want = sys.argv[1:]
    res = []
    assert sh("git -C /repo status --porcelain").stdout.strip() == "", "/repo not clean"
    for name, prop, f, old, new in MUTANTS:
        if want and name not in want: continue
        p = os.path.join("/repo", f)
        src = open(p).read()
        edits = old if isinstance(old, list) else [(old, new)]
        if any(o not in src for o, _ in edits):
            res.append((name, prop, "PATTERN-NOT-FOUND", 0)); continue
        for o, n in edits:
            src = src.replace(o, n, 1)
        open(p, "w").write(src)
        t = time.time()
        try:
            r = sh(f"cd /verif && ./check {prop} quick")
            line = [l for l in r.stdout.splitlines() if l.startswith("VIOLATION")]
            why = [l for l in r.stdout.splitlines() if l.startswith("violation in") or l.startswith("obligation ") or l.startswith("Miri:") or l.startswith("the thread harness")]
            res.append((name, prop, f"exit={r.returncode} {line[0] if line else ''} {why[0][:160] if why else r.stderr[-300:]}", time.time()-t))
        finally:
            sh("git -C /repo checkout -- .")
    for r in res: print("%-34s %s %s (%.0fs)" % r)
    sh("git -C /verif checkout -- evidence 2>/dev/null")
main()
