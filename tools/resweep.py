#!/usr/bin/env python3
"""Regression sweep: every stored seeded defect must still be caught (exit 1) by the quick check
of its property; the ones classified as outside the property and the benign ones must stay at 0."""
import json, glob, os, subprocess, sys, time
def sh(c): return subprocess.run(c, shell=True, capture_output=True, text=True)
assert sh("git -C /repo status --porcelain").stdout.strip() == ""
only = sys.argv[1:]
bad = 0
for d in sorted(glob.glob("/verif/seeded/*/")):
    sid = os.path.basename(d.rstrip("/"))
    if only and not any(sid.startswith(o) for o in only): continue
    if sid.startswith("benign"): continue
    m = json.load(open(d + "meta.json"))
    prop = m["property"]; want = 0 if "classification" in m else m.get("expect_exit", 1)
    sh(f"git -C /repo apply {d}patch.diff")
    try:
        t = time.time()
        r = sh(f"cd /verif && ./check {prop} quick")
    finally:
        sh("git -C /repo checkout -- . && git -C /repo clean -fdq src")
    ok = (r.returncode == want)
    bad += (not ok)
    print(f"{sid:12s} {prop} want={want} got={r.returncode} {'ok' if ok else 'REGRESSION'} ({time.time()-t:.0f}s)", flush=True)
sh("git -C /verif checkout -- evidence")
sys.exit(1 if bad else 0)
