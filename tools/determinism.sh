#!/usr/bin/env bash
# Determinism proof: per-run event-log hashes must be identical across fresh processes and
# worker counts. Usage: tools/determinism.sh [runs-per-seed]
set -eu
cd "$(dirname "$0")/.."
N="${1:-4000}"
OUT="$(mktemp -d /verif/sim/target/det.XXXXXX)"
( cd /verif/sim && cargo build --release --bin opsim 2>/dev/null )
BIN=/verif/sim/target/release/opsim
fail=0
for prop in C10 C15; do
  for seed in 1 20240601 987654321; do
    for t in 1 16 5; do
      $BIN run --prop $prop --runs $N --seed $seed --threads $t --replay-dir $OUT/rp --known /verif/known_findings.txt --hashes $OUT/$prop.$seed.$t.txt >/dev/null
    done
    # a second fresh process at the same worker count as well
    $BIN run --prop $prop --runs $N --seed $seed --threads 16 --replay-dir $OUT/rp --known /verif/known_findings.txt --hashes $OUT/$prop.$seed.16b.txt >/dev/null
    for t in 16 5 16b; do
      if ! cmp -s $OUT/$prop.$seed.1.txt $OUT/$prop.$seed.$t.txt; then echo "NONDETERMINISM prop=$prop seed=$seed threads=1 vs $t"; fail=1; fi
    done
    echo "$prop seed=$seed: $(wc -l < $OUT/$prop.$seed.1.txt) runs x 4 processes identical=$((1-fail))"
  done
done
# thread mode: the set of explored shuttle schedules must not depend on the worker count or process
( cd /verif/sim && cargo build --release --features shuttle-mode --bin thsim --target-dir target-ts 2>/dev/null )
TH=/verif/sim/target-ts/release/thsim
for seed in 1 20240601; do
  for t in 1 16 5 16; do
    $TH run --programs 1500 --schedules 10 --seed $seed --threads $t --replay-dir $OUT/rp --out $OUT/th.$seed.$t.json >/dev/null
    python3 -c "import json;d=json.load(open('$OUT/th.$seed.$t.json'));print(d['executions'],d['distinct_interleavings'],d['schedule_set_hash'])" >> $OUT/th.$seed.txt
  done
  if [ "$(sort -u $OUT/th.$seed.txt | wc -l)" != 1 ]; then echo "NONDETERMINISM thsim seed=$seed"; cat $OUT/th.$seed.txt; fail=1; fi
  echo "thsim seed=$seed: $(head -1 $OUT/th.$seed.txt) (executions, distinct schedules, set hash) x 4 processes identical=$((1-fail))"
done
rm -rf "$OUT"
exit $fail
