#!/usr/bin/env python3
"""Property-preserving changes delivered by sub-agents: apply each to /repo, run the check of
that property (and optionally others), expect exit 0; always restore /repo.
usage: benign_ext.py <dir with A,B,.. subdirs> <prop> [more props]
       benign_ext.py --stored [prefix]      every /verif/seeded/benign-*/patch.diff against the
                                            property in its name (benign-c10-A -> C10)"""
import subprocess, sys, os, json, shutil, time
def sh(c): return subprocess.run(c, shell=True, capture_output=True, text=True)
assert sh("git -C /repo status --porcelain").stdout.strip() == ""
if sys.argv[1] == "--stored":
    import glob, re
    pre = sys.argv[2] if len(sys.argv) > 2 else ""
    bad = 0
    for dd in sorted(glob.glob("/verif/seeded/benign-*/")):
        sid = os.path.basename(dd.rstrip("/"))
        if not sid.startswith("benign-" + pre): continue
        prop = "C" + re.match(r"benign-c(\d+)", sid).group(1)
        r = sh(f"git -C /repo apply {dd}patch.diff")
        if r.returncode != 0:
            print(sid, "PATCH DOES NOT APPLY"); continue
        try:
            t = time.time(); r = sh(f"cd /verif && ./check {prop} quick")
        finally:
            sh("git -C /repo checkout -- . && git -C /repo clean -fdq src")
        bad += (r.returncode != 0)
        print(f"{sid:22s} {prop} exit={r.returncode} {'ok' if r.returncode == 0 else 'ALARM/ERROR'} ({time.time()-t:.0f}s)", flush=True)
    sh("git -C /verif checkout -- evidence")
    sys.exit(1 if bad else 0)
d = sys.argv[1]; props = sys.argv[2:]
for x in sorted(os.listdir(d)):
    patch = os.path.join(d, x, "patch.diff")
    if not os.path.exists(patch): continue
    r = sh(f"git -C /repo apply {patch}")
    if r.returncode != 0:
        print(x, "PATCH DOES NOT APPLY", r.stderr[:200]); continue
    try:
        for p in props:
            t = time.time()
            r = sh(f"cd /verif && ./check {p} quick")
            v = [l for l in r.stdout.splitlines() if l.startswith("VIOLATION") or l.startswith("violation") or l.startswith("obligation") or l.startswith("Miri:") or l.startswith("pipeline:")]
            print(f"{os.path.basename(d)}/{x} {p} exit={r.returncode} {('FALSE ALARM? ' + ' | '.join(v)[:600]) if r.returncode == 1 else ''}{r.stderr[-600:] if r.returncode == 2 else ''} ({time.time()-t:.0f}s)", flush=True)
            base = os.path.basename(d.rstrip("/")).replace("out_", "")
            base = base.replace("benign2", "r2").replace("benign", "")
            sid = f"benign-{base}-{x}"
            out = f"/verif/seeded/{sid}"; os.makedirs(out, exist_ok=True)
            shutil.copy(patch, out + "/patch.diff")
            if os.path.exists(os.path.join(d, x, "notes.md")): shutil.copy(os.path.join(d, x, "notes.md"), out + "/notes.md")
            meta = {"id": sid, "kind": "property-preserving change (false-alarm test)", "property": p, "our_check": {"cmd": f"./check {p} quick", "exit": r.returncode, "lines": v[:3]}}
            json.dump(meta, open(out + f"/meta.{p}.json", "w"), indent=1)
    finally:
        sh("git -C /repo checkout -- . && git -C /repo clean -fdq src")
sh("git -C /verif checkout -- evidence")
