#!/usr/bin/env python3
"""The simulator process died from a signal (memory unsafety in the tree under test shows up as
SIGSEGV/SIGABRT of the process that links it). Find the run, confirm it crashes deterministically
in a fresh single-run process, and report it as a violation with a replay file.
usage: crash_triage.py <opsim> <prop> <seed> <progress-dir> <replay-dir> <known> <evidence> <tier>"""
import glob, json, os, subprocess, sys, time
opsim, prop, seed, prog, rdir, known, evidence, tier = sys.argv[1:9]
def single(i):
    r = subprocess.run([opsim, "run", "--prop", prop, "--seed", seed, "--first-run", str(i), "--runs", "1", "--threads", "1",
                        "--replay-dir", rdir, "--known", known], capture_output=True, text=True)
    return r.returncode
cands = set()
for f in glob.glob(os.path.join(prog, "worker-*")):
    try: cands.add(int(open(f).read().strip() or -1))
    except Exception: pass
cands = sorted(c for c in cands if c >= 0)
for i in cands:
    rc = single(i)
    if rc < 0 or rc >= 128:
        rc2 = single(i)
        if rc2 == rc:
            os.makedirs(f"{rdir}/{prop}", exist_ok=True)
            path = f"{rdir}/{prop}/crash-{seed}-{i}.json"
            sig = -rc if rc < 0 else rc - 128
            json.dump({"property": prop, "mode": "crash", "seed": int(seed), "run": i, "signal": sig,
                       "what": "the simulator process is killed by a signal while executing this run: memory unsafety reached through the builder calls of the run (generate it with `opsim run --first-run <run> --runs 1`)"}, open(path, "w"), indent=1)
            json.dump({"property_id": prop, "tier": tier, "seed": int(seed), "level": "other",
                       "coverage": {"explanation": f"run {i} of seed {seed} kills the simulator process with signal {sig}, twice in fresh processes; no statistics are available from the crashed batch", "evaluations": len(cands), "distinct_nontrivial": 2},
                       "wall_s": 0.0, "violations": 1}, open(evidence, "w"), indent=1)
            print(f"run {i} (seed {seed}) kills the simulator with signal {sig} (reproduced twice in fresh processes)")
            print(f"VIOLATION property={prop} replay={path}")
            sys.exit(1)
print("HARNESS: the simulator died from a signal but no single run reproduces it", file=sys.stderr)
sys.exit(2)
