#!/usr/bin/env python3
"""Confirm a seeded defect delivered by a sub-agent and run our checks against it.

  seeded.py <deliverable dir> <scratch worktree> <property> <id> [--features F] [--tier quick|thorough]

1. in the scratch worktree: apply patch -> existing suite must pass; demo must fail;
   revert patch -> demo must pass
2. apply the patch to /repo, run ./check <property> <tier>, revert /repo
3. store /verif/seeded/<id>/{patch.diff, demo.rs, notes.md, meta.json}
"""
import json, os, re, shutil, subprocess, sys, time

def sh(cmd, cwd=None, timeout=3600):
    env = dict(os.environ, CARGO_NET_OFFLINE="true")
    return subprocess.run(cmd, shell=True, cwd=cwd, capture_output=True, text=True, env=env, timeout=timeout)

def test_summary(out):
    passed = sum(int(x) for x in re.findall(r"test result: \w+\. (\d+) passed", out))
    failed = sum(int(x) for x in re.findall(r"test result: \w+\. \d+ passed; (\d+) failed", out))
    return passed, failed

def main():
    d, wt, prop, sid = sys.argv[1:5]
    feats = None
    tier = "quick"
    if "--features" in sys.argv:
        feats = sys.argv[sys.argv.index("--features") + 1]
    if "--tier" in sys.argv:
        tier = sys.argv[sys.argv.index("--tier") + 1]
    patch = os.path.join(d, "patch.diff")
    demo = os.path.join(d, "demo.rs")
    meta = {"id": sid, "property": prop, "source": d, "ran": []}
    assert sh("git status --porcelain", cwd=wt).stdout.strip() == "", "scratch worktree not clean"
    fflag = f"--features {feats}" if feats else ""
    try:
        r = sh(f"git apply {patch}", cwd=wt)
        assert r.returncode == 0, "patch does not apply: " + r.stderr
        r = sh(f"cargo test --workspace --no-fail-fast --offline 2>&1", cwd=wt)
        p, f = test_summary(r.stdout)
        meta["suite_with_patch"] = {"passed": p, "failed": f, "exit": r.returncode}
        meta["ran"].append("cargo test --workspace --no-fail-fast --offline (with patch, before the demo is added)")
        # demo registration
        demo_name = "demo_" + re.sub(r"[^a-z0-9]", "_", sid.lower())
        shutil.copy(demo, os.path.join(wt, "tests", demo_name + ".rs"))
        req = ["tests-cfg", "backend-mysql", "backend-postgres", "backend-sqlite"]
        cargo = open(os.path.join(wt, "Cargo.toml")).read()
        open(os.path.join(wt, "Cargo.toml"), "w").write(cargo + f'\n[[test]]\nname = "{demo_name}"\npath = "tests/{demo_name}.rs"\nrequired-features = {json.dumps(req)}\n')

        r = sh(f"cargo test --offline {fflag} --test {demo_name} 2>&1", cwd=wt)
        p, f = test_summary(r.stdout)
        meta["demo_with_patch"] = {"passed": p, "failed": f, "exit": r.returncode, "tail": r.stdout[-600:]}
        meta["ran"].append(f"cargo test --offline {fflag} --test {demo_name} (with patch)")
        sh(f"git apply -R {patch}", cwd=wt)
        r = sh(f"cargo test --offline {fflag} --test {demo_name} 2>&1", cwd=wt)
        p, f = test_summary(r.stdout)
        meta["demo_without_patch"] = {"passed": p, "failed": f, "exit": r.returncode}
        meta["ran"].append(f"cargo test --offline {fflag} --test {demo_name} (without patch)")
    finally:
        sh("git checkout -- . && git clean -fdq tests", cwd=wt)
    meta["confirmed"] = (meta.get("suite_with_patch", {}).get("failed") == 0 and meta["suite_with_patch"]["passed"] >= 470
                         and meta["suite_with_patch"]["exit"] == 0
                         and meta["demo_with_patch"]["exit"] != 0 and meta["demo_without_patch"]["exit"] == 0)
    # our checks
    assert sh("git -C /repo status --porcelain").stdout.strip() == "", "/repo not clean"
    try:
        r = sh(f"git -C /repo apply {patch}")
        assert r.returncode == 0, r.stderr
        t = time.time()
        r = sh(f"cd /verif && ./check {prop} {tier}")
        viol = [l for l in r.stdout.splitlines() if l.startswith("VIOLATION")]
        why = [l for l in r.stdout.splitlines() if l.startswith("violation in") or l.startswith("obligation ") or l.startswith("Miri:") or l.startswith("the thread harness")]
        meta["our_check"] = {"cmd": f"./check {prop} {tier}", "exit": r.returncode, "violation_line": viol[:1], "what": [w[:400] for w in why[:2]], "wall_s": round(time.time() - t, 1), "stderr_tail": r.stderr[-400:] if r.returncode == 2 else ""}
        if viol:
            path = viol[0].split("replay=")[1].strip()
            rr = sh(f"cd /verif && ./check {prop} --replay {path}")
            meta["our_check"]["replay_exit_with_patch"] = rr.returncode
    finally:
        sh("git -C /repo checkout -- .")
    if viol:
        rr = sh(f"cd /verif && ./check {prop} --replay {path}")
        meta["our_check"]["replay_exit_without_patch"] = rr.returncode
    sh("git -C /verif checkout -- evidence")
    out = f"/verif/seeded/{sid}"
    os.makedirs(out, exist_ok=True)
    for f in ("patch.diff", "demo.rs", "notes.md"):
        if os.path.exists(os.path.join(d, f)):
            shutil.copy(os.path.join(d, f), os.path.join(out, f))
    notes = open(os.path.join(d, "notes.md")).read() if os.path.exists(os.path.join(d, "notes.md")) else ""
    meta["needs_to_manifest"] = notes[:1500]
    json.dump(meta, open(os.path.join(out, "meta.json"), "w"), indent=1)
    print(json.dumps({k: meta[k] for k in ("id", "confirmed", "suite_with_patch", "demo_with_patch", "demo_without_patch", "our_check") if k in meta}, indent=1)[:2500])

main()
