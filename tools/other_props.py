#!/usr/bin/env python3
"""Attribution self-test: edits that break OTHER properties (rendering, quoting, escaping,
placeholders) but leave C10 / C15 / C20 true. Our checks must stay at exit 0."""
import subprocess, sys, os, time
M = [
 ("C04_quote_not_doubled", "src/types.rs", "self.to_string().replace(qq, qq.repeat(2).as_str())", "self.to_string().replace(qq, qq)"),
 ("C01_placeholder_counter_off_by_one", "src/prepare.rs", "let counter = self.counter;", "let counter = self.counter + 1;"),
 ("C03_escape_misses_backslash", "src/backend/mod.rs", "            .replace('\\\\', \"\\\\\\\\\")\n", ""),
 ("C08_limit_offset_swapped", "src/backend/query_builder.rs", "            write!(sql, \" LIMIT \").unwrap();\n            self.prepare_value(limit, sql);", "            write!(sql, \" LIMIT  \").unwrap();\n            self.prepare_value(limit, sql);"),
 ("C02_bool_inlined_as_int", "src/backend/query_builder.rs", "Value::Bool(Some(b)) => write!(s, \"{}\", if *b { \"TRUE\" } else { \"FALSE\" }).unwrap(),", "Value::Bool(Some(b)) => write!(s, \"{}\", if *b { \"1\" } else { \"0\" }).unwrap(),"),
 ("C06_having_uses_or", "src/query/condition.rs", "                    ConditionType::All => out_expr.and(e),", "                    ConditionType::All => out_expr.or(e),"),
 ("C14_create_table_drops_if_not_exists", "src/table/create.rs", "        self.if_not_exists = true;\n        self\n    }\n\n    /// Set table name", "        self.if_not_exists = false;\n        self\n    }\n\n    /// Set table name"),
]
def sh(c): return subprocess.run(c, shell=True, capture_output=True, text=True)
assert sh("git -C /repo status --porcelain").stdout.strip() == ""
want = sys.argv[1:]
for name, f, old, new in M:
    if want and name not in want: continue
    p = "/repo/" + f; src = open(p).read()
    if old not in src:
        print(name, "PATTERN-NOT-FOUND"); continue
    open(p, "w").write(src.replace(old, new, 1))
    try:
        b = sh("cd /repo && cargo build --offline 2>&1 | tail -1")
        for prop in ("C10", "C15", "C20"):
            t = time.time(); r = sh(f"cd /verif && ./check {prop} quick")
            v = [l for l in r.stdout.splitlines() if l.startswith("violation") or l.startswith("VIOLATION")]
            print(f"{name:40s} {prop} exit={r.returncode} {'MISATTRIBUTED ALARM ' + v[0][:300] if r.returncode == 1 else ''}{r.stderr[-200:] if r.returncode == 2 else ''} ({time.time()-t:.0f}s)", flush=True)
    finally:
        sh("git -C /repo checkout -- .")
sh("git -C /verif checkout -- evidence")
