#!/usr/bin/env python3
"""False-alarm self-test: property-PRESERVING edits of /repo; every check must stay at exit 0.
Usage: tools/benign.py [name ...]"""
import subprocess, sys, os, time
B = [
 ("sel_take_via_mem_take", ["C15"], "src/query/select.rs", None),  # special: handled below
 ("ic_take_moves_everything", ["C15"], "src/index/create.rs", [("r#where: self.r#where.clone(),", "r#where: std::mem::take(&mut self.r#where),"), ("include_columns: self.include_columns.clone(),", "include_columns: std::mem::take(&mut self.include_columns),")]),
 ("values_match_refactor", ["C10"], "src/query/insert.rs", [("""            let values_source = if let Some(InsertValueSource::Values(values)) = &mut self.source {
                values
            } else {
                self.source = Some(InsertValueSource::Values(Default::default()));
                if let Some(InsertValueSource::Values(values)) = &mut self.source {
                    values
                } else {
                    unreachable!();
                }
            };
            values_source.push(values);""", """            match &mut self.source {
                Some(InsertValueSource::Values(rows)) => rows.push(values),
                _ => self.source = Some(InsertValueSource::Values(vec![values])),
            }""")]),
 ("values_panic_expect_message", ["C10"], "src/query/insert.rs", [("self.values(values).unwrap()", 'self.values(values).expect("row does not match the column list")')]),
 ("error_display_and_debug_changed", ["C10"], "src/error.rs", [("#[derive(Debug, PartialEq, Eq)]\npub enum Error {", "#[derive(PartialEq, Eq)]\npub enum Error {"), ("impl std::error::Error for Error {}", "impl std::error::Error for Error {}\nimpl std::fmt::Debug for Error { fn fmt(&self, f: &mut std::fmt::Formatter) -> std::fmt::Result { match self { Self::ColValNumMismatch { col_len, val_len } => write!(f, \"mismatch({col_len},{val_len})\") } } }")]),
 ("batch_all_or_nothing", ["C10"], "src/query/insert.rs", [("""        values_iter.into_iter().for_each(|values| {
            self.values_panic(values);
        });
        self""", """        let backup = self.source.clone();
        let mut it = values_iter.into_iter();
        let r = std::panic::catch_unwind(std::panic::AssertUnwindSafe(|| {
            for values in &mut it {
                self.values_panic(values);
            }
        }));
        if let Err(p) = r {
            self.source = backup;
            std::panic::resume_unwind(p);
        }
        self""")]),
 ("arc_always", ["C15", "C20"], "src/types.rs", [("#[cfg(not(feature = \"thread-safe\"))]\npub type RcOrArc<T> = std::rc::Rc<T>;", "#[cfg(not(feature = \"thread-safe\"))]\npub type RcOrArc<T> = std::sync::Arc<T>;")]),
 ("clear_via_clear", ["C15"], "src/query/select.rs", [("self.selects = Vec::new();\n        self", "self.selects.clear();\n        self"), ("self.orders = Vec::new();\n        self", "self.orders.clear();\n        self")]),
 ("window_take_via_mem_take", ["C15"], "src/query/window.rs", [("""        Self {
            partition_by: std::mem::take(&mut self.partition_by),
            order_by: std::mem::take(&mut self.order_by),
            frame: self.frame.take(),
        }""", "        std::mem::take(self)")]),
 ("coldef_take_keeps_name", ["C15"], "src/table/column.rs", [("name: std::mem::replace(&mut self.name, SeaRc::new(NullAlias::new())),", "name: self.name.clone(),")]),
]
def sh(cmd):
    return subprocess.run(cmd, shell=True, capture_output=True, text=True)
def main():
    want = sys.argv[1:]
    assert sh("git -C /repo status --porcelain").stdout.strip() == "", "/repo not clean"
    out = []
    for name, props, f, edits in B:
        if want and name not in want: continue
        p = os.path.join("/repo", f)
        src = open(p).read()
        if edits is None:
            a = src.index("    pub fn take(&mut self) -> Self {\n        Self {\n            distinct:")
            b = src.index("        }\n    }\n", a) + len("        }\n    }\n")
            src2 = src[:a] + "    pub fn take(&mut self) -> Self {\n        std::mem::take(self)\n    }\n" + src[b:]
        else:
            if any(o not in src for o, _ in edits):
                out.append((name, "PATTERN-NOT-FOUND")); continue
            src2 = src
            for o, n in edits: src2 = src2.replace(o, n, 1)
        open(p, "w").write(src2)
        try:
            b = sh("cd /repo && cargo build --offline 2>&1 | tail -3")
            for prop in props:
                t = time.time()
                r = sh(f"cd /verif && ./check {prop} quick")
                v = [l for l in r.stdout.splitlines() if l.startswith("VIOLATION") or l.startswith("violation")]
                out.append((name, f"{prop} exit={r.returncode} {'FALSE ALARM ' + v[0][:200] if r.returncode == 1 else ''}{r.stderr[-300:] if r.returncode == 2 else ''} ({time.time()-t:.0f}s)"))
        finally:
            sh("git -C /repo checkout -- .")
    for o in out: print("%-34s %s" % o)
    sh("git -C /verif checkout -- evidence 2>/dev/null")
main()
